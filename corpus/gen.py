#!/usr/bin/env python3
"""Corpus generator: a crate of flat type definitions + markers + roots, and an independent
shape manifest (the oracle for "what was declared").  Deterministic; VERIF_SEED only permutes order.

Nothing here is executed by the checks: the crate is only type-checked through the facts driver.
"""
import argparse
import itertools
import json
import os
import sys

# --------------------------------------------------------------------------------------
# type model (with the plain C layout rule as an independent oracle, x86_64)


def ceil_mul(x, m):
    return (x + m - 1) // m * m


class T:
    def __init__(self, rust, size, align, sized=True, portable=False, default=True, trivial=True,
                 comps=(), kind="prim", emplacers=None, min_size=None, name=None, length=False, zst=False, fname=None):
        self.rust = rust
        self.size = size
        self.align = align
        self.sized = sized
        self.portable = portable
        self.default = default
        self.trivial = trivial  # validator is always Ok
        self.comps = list(comps)
        self.kind = kind
        self.emplacers = emplacers if emplacers is not None else ([rust] if sized else [])
        self.min_size = size if min_size is None else min_size
        self.name = name or rust
        self.length = length
        self.zst = zst
        self.defn = None
        self.fname = fname or rust  # the type as the facts print it, module paths stripped

    def describe(self):
        return {"rust": self.rust, "fty": self.fname, "kind": self.kind, "size": self.size, "align": self.align, "sized": self.sized,
                "min_size": self.min_size, "portable": self.portable, "default": self.default,
                "trivial": self.trivial, "comps": [c.fname for c in self.comps]}


def prim(n, s, a, portable=False, length=False):
    return T(n, s, a, portable=portable, length=length, zst=(s == 0))


U8 = prim("u8", 1, 1, portable=True, length=True)
I8 = prim("i8", 1, 1, portable=True)
U16 = prim("u16", 2, 2, length=True)
U32 = prim("u32", 4, 4, length=True)
U64 = prim("u64", 8, 8, length=True)
U128 = prim("u128", 16, 16, length=True)
USIZE = prim("usize", 8, 8, length=True)
I16 = prim("i16", 2, 2)
I32 = prim("i32", 4, 4)
I64 = prim("i64", 8, 8)
F32 = prim("f32", 4, 4)
F64 = prim("f64", 8, 8)
UNIT = prim("()", 0, 1, portable=True)
BOOL = T("flatty::portable::Bool", 1, 1, portable=True, trivial=False, kind="bool", name="Bool", fname="Bool")


def pint(mod, n, bits, length):
    return T("flatty::portable::%s::%s" % (mod, n), bits // 8, 1, portable=True, kind="pint", length=length,
             name="%s::%s" % (mod, n),
             fname="Int<%s, %d, %s>" % ("true" if mod == "be" else "false", bits // 8, "true" if n.startswith("I") else "false"))


U24_PRELUDE = r"""
// A user-defined length type: 3 bytes, alignment 1 (flatty::vec::Length is a blanket over the num-traits traits).
#[repr(C)]
#[derive(Clone, Copy, PartialEq, Eq, Debug, Default)]
pub struct U24([u8; 3]);
impl U24 {
    fn get(self) -> u32 { u32::from_le_bytes([self.0[0], self.0[1], self.0[2], 0]) }
    fn new(x: u32) -> Self { let b = x.to_le_bytes(); U24([b[0], b[1], b[2]]) }
}
unsafe impl flatty::traits::FlatValidate for U24 {
    unsafe fn validate_unchecked(_: &[u8]) -> Result<(), flatty::Error> { Ok(()) }
}
unsafe impl flatty::Flat for U24 {}
impl PartialOrd for U24 { fn partial_cmp(&self, o: &Self) -> Option<core::cmp::Ordering> { Some(self.cmp(o)) } }
impl Ord for U24 { fn cmp(&self, o: &Self) -> core::cmp::Ordering { self.get().cmp(&o.get()) } }
macro_rules! __u24_op {
    ($tr:ident, $f:ident, $tra:ident, $fa:ident, $op:tt) => {
        impl core::ops::$tr for U24 { type Output = U24; fn $f(self, r: U24) -> U24 { U24::new(self.get() $op r.get()) } }
        impl core::ops::$tra for U24 { fn $fa(&mut self, r: U24) { *self = U24::new(self.get() $op r.get()) } }
    };
}
__u24_op!(Add, add, AddAssign, add_assign, +);
__u24_op!(Sub, sub, SubAssign, sub_assign, -);
__u24_op!(Mul, mul, MulAssign, mul_assign, *);
__u24_op!(Div, div, DivAssign, div_assign, /);
__u24_op!(Rem, rem, RemAssign, rem_assign, %);
impl num_traits::Zero for U24 { fn zero() -> Self { U24::new(0) } fn is_zero(&self) -> bool { self.get() == 0 } }
impl num_traits::One for U24 { fn one() -> Self { U24::new(1) } }
impl num_traits::Num for U24 {
    type FromStrRadixErr = core::num::ParseIntError;
    fn from_str_radix(s: &str, r: u32) -> Result<Self, Self::FromStrRadixErr> { u32::from_str_radix(s, r).map(U24::new) }
}
impl num_traits::Unsigned for U24 {}
impl num_traits::Bounded for U24 { fn min_value() -> Self { U24::new(0) } fn max_value() -> Self { U24::new(0xFF_FFFF) } }
impl num_traits::ToPrimitive for U24 {
    fn to_u64(&self) -> Option<u64> { Some(self.get() as u64) }
    fn to_i64(&self) -> Option<i64> { Some(self.get() as i64) }
}
impl num_traits::FromPrimitive for U24 {
    fn from_u64(n: u64) -> Option<Self> { if n <= 0xFF_FFFF { Some(U24::new(n as u32)) } else { None } }
    fn from_i64(n: i64) -> Option<Self> { if (0..=0xFF_FFFF).contains(&n) { Some(U24::new(n as u32)) } else { None } }
}
"""

# a user-defined length type whose size is not a power of two (3 bytes, align 1): defined in the corpus prelude
U24 = T("crate::U24", 3, 1, portable=False, length=True, trivial=True, kind="prim", name="U24", fname="U24")
LE_U16 = pint("le", "U16", 16, True)
LE_U32 = pint("le", "U32", 32, True)
LE_U64 = pint("le", "U64", 64, True)
BE_U16 = pint("be", "U16", 16, True)
BE_U32 = pint("be", "U32", 32, True)
LE_I32 = pint("le", "I32", 32, False)
BE_I64 = pint("be", "I64", 64, False)
LE_F64 = T("flatty::portable::le::F64", 8, 1, portable=True, kind="pfloat", name="le::F64", fname="Float<false, 8>")
BE_F32 = T("flatty::portable::be::F32", 4, 1, portable=True, kind="pfloat", name="be::F32", fname="Float<true, 4>")


def array(t, n):
    return T("[%s; %d]" % (t.rust, n), t.size * n, t.align, portable=t.portable, default=t.default,
             trivial=t.trivial or n == 0, comps=[t] if n > 0 else [], kind="array", zst=(t.size * n == 0),
             fname="[%s; %d]" % (t.fname, n))


def ceil_mul(x, m):
    return -(-x // m) * m


def flatvec(t, l):
    align = max(t.align, l.align)
    off = ceil_mul(l.size, t.align)   # C rule for #[repr(C)] { len: L, data: [T] } (= max(size, align) only for power-of-two sizes)
    em = ["flatty::vec::Empty", "flatty::vec::FromArray<%s, 2>" % t.rust]
    if t.rust in ("u8", "u16", "u32", "u64", "i32"):
        em.append("flatty::vec::FromIterator<%s, core::ops::Range<%s>>" % (t.rust, t.rust))
    r = T("flatty::FlatVec<%s, %s>" % (t.rust, l.rust), None, align, sized=False,
          portable=t.portable and l.portable, default=True, trivial=False, comps=[l, t], kind="vec",
          emplacers=em, min_size=off, fname="FlatVec<%s, %s>" % (t.fname, l.fname))
    r.elem, r.len_ty, r.data_offset = t, l, off
    return r


def flatstring(l):
    r = T("flatty::FlatString<%s>" % l.rust, None, l.align, sized=False, portable=l.portable, default=True,
          trivial=False, comps=[l], kind="string",
          emplacers=["flatty::string::Empty", "flatty::string::FromStr<&'static str>"], min_size=l.size,
          fname="FlatString<%s>" % l.fname)
    r.len_ty, r.data_offset = l, l.size
    return r


def flexvec(t, l):
    align = max(t.align, l.align)
    off = ceil_mul(l.size, t.align)
    em = ["flatty::flex::Empty"]
    if t.emplacers:
        e = t.emplacers[-1]
        em.append("flatty::flex::FromIterator<%s, %s, core::array::IntoIter<%s, 2>>" % (t.rust, e, e))
    r = T("flatty::FlexVec<%s, %s>" % (t.rust, l.rust), None, align, sized=False,
          portable=t.portable and l.portable, default=True, trivial=False, comps=[l, t], kind="flex",
          emplacers=em, min_size=off, fname="FlexVec<%s, %s>" % (t.fname, l.fname))
    r.elem, r.len_ty, r.offset_size = t, l, off
    return r


# --------------------------------------------------------------------------------------
# macro hygiene: inherent items with the name (and signature) of every item of the flatty traits. Generated code that names a trait
# item through `Self::X`, `<Ty>::X` or method syntax silently resolves to these (rule H1.no-hijack looks for them in generated bodies).

def hij_all(name):
    return ("impl %s {\n"
            "    pub const ALIGN: usize = 64;\n    pub const MIN_SIZE: usize = 4096;\n    pub const SIZE: usize = 4096;\n"
            "    pub fn size(&self) -> usize { 0 }\n"
            "    pub unsafe fn ptr_from_bytes(_: *mut [u8]) -> *mut Self { loop {} }\n"
            "    pub unsafe fn ptr_to_bytes(_: *mut Self) -> *mut [u8] { loop {} }\n"
            "    pub unsafe fn from_bytes_unchecked(_: &[u8]) -> &Self { loop {} }\n"
            "    pub unsafe fn from_mut_bytes_unchecked(_: &mut [u8]) -> &mut Self { loop {} }\n"
            "    pub fn as_bytes(&self) -> &[u8] { &[] }\n"
            "    pub unsafe fn as_mut_bytes(&mut self) -> &mut [u8] { &mut [] }\n"
            "    pub fn new_in_place<I>(_: &mut [u8], _: I) -> Result<&mut Self, flatty::Error> { loop {} }\n"
            "    pub fn assign_in_place<I>(&mut self, _: I) -> Result<&mut Self, flatty::Error> { loop {} }\n"
            "    pub unsafe fn validate_unchecked(_: &[u8]) -> Result<(), flatty::Error> { Ok(()) }\n"
            "    pub unsafe fn validate_ptr(_: *const Self) -> Result<(), flatty::Error> { Ok(()) }\n"
            "    pub fn validate(_: &[u8]) -> Result<(), flatty::Error> { Ok(()) }\n"
            "    pub fn from_bytes(_: &[u8]) -> Result<&Self, flatty::Error> { loop {} }\n"
            "    pub fn from_mut_bytes(_: &mut [u8]) -> Result<&mut Self, flatty::Error> { loop {} }\n"
            "    pub fn default_in_place(_: &mut [u8]) -> Result<&mut Self, flatty::Error> { loop {} }\n"
            "}\n") % name


# --------------------------------------------------------------------------------------
# #[flat] definitions

class Def:
    def __init__(self, name, kind, sized, fields=None, variants=None, tag=None, default=False, portable=False,
                 vis="pub", style="named", discrs=None, vattrs=None, extra="", generic=None):
        self.name = name
        # generic = (rust name of the generic definition, its parameter declaration, the instance's arguments, {concrete field type: generic spelling}):
        # the Def then describes ONE instantiation (the oracle needs concrete fields); the generic source is emitted once per rust name.
        self.generic = generic
        self.kind = kind  # struct | enum
        self.sized = sized
        self.fields = fields  # [(name|None, T)]
        self.variants = variants  # [(name, style, [(fname|None, T)], is_default)]
        self.tag = tag
        self.default = default
        self.portable = portable
        self.vis = vis
        self.style = style
        self.discrs = discrs
        self.extra = extra  # extra user code next to the definition (e.g. inherent methods that must not hijack generated code)
        self.vattrs = vattrs or {}
        self.c_like = kind == "enum" and all(not v[2] for v in variants)
        if default and kind == "struct":
            assert all(t.default for _, t in fields), "default struct %s has non-default field" % name
            assert sized or style != "tuple", "macro limitation: tuple unsized struct cannot be default"
        if default and kind == "enum":
            dv = [v for v in variants if v[3]]
            assert len(dv) == 1 and not dv[0][2], "macro limitation: #[default] must be a unit variant (%s)" % name
        self.t = self._type()
        self.t.defn = self
        if generic:
            self.t.rust = "%s<%s>" % (generic[0], generic[2])
            self.t.fname = self.t.rust
            self.t.emplacers = []

    def tag_t(self):
        return {"u8": U8, "u16": U16, "u32": U32}[self.tag or "u8"]

    def _fold(self, fields, last_min=False):
        pos = 0
        offs = []
        for i, (_, t) in enumerate(fields):
            pos = ceil_mul(pos, t.align)
            offs.append(pos)
            pos += (t.min_size if (last_min and i == len(fields) - 1) else t.size) or 0
        return pos, offs

    def _type(self):
        n = self.name
        if self.kind == "struct":
            ts = [t for _, t in self.fields]
            align = max([t.align for t in ts] or [1])
            comps = ts
            if self.sized:
                end, offs = self._fold(self.fields)
                size = ceil_mul(end, align)
                self.offsets = offs
                t = T(n, size, align, portable=self.portable, default=self.default,
                      trivial=all(x.trivial for x in ts), comps=comps, kind="def", zst=(size == 0))
            else:
                end, offs = self._fold(self.fields, last_min=True)
                self.offsets = offs
                self.last_field_offset = offs[-1]
                self.min_size_unrounded = end
                min_size = ceil_mul(end, align)
                ems = []
                # Init<E...> with first / last emplacer of every field
                for pick in (0, -1):
                    args = []
                    for _, ft in self.fields:
                        if not ft.emplacers:
                            args = None
                            break
                        args.append(ft.emplacers[pick])
                    if args is not None:
                        e = "%sInit<%s>" % (n, ", ".join(args))
                        if e not in ems:
                            ems.append(e)
                t = T(n, None, align, sized=False, portable=self.portable, default=self.default,
                      trivial=all(x.trivial for x in ts), comps=comps, kind="def", emplacers=ems, min_size=min_size)
            return t
        # enum
        tag = self.tag_t()
        allf = [t for v in self.variants for _, t in v[2]]
        align = max([tag.align] + [t.align for t in allf])
        self.data_offset = ceil_mul(tag.size, align)
        comps = [tag] + allf
        if self.sized:
            if self.c_like:
                size = tag.size
                align = tag.align
                self.variant_offsets = [[] for _ in self.variants]
            else:
                # repr(C, tag): struct { tag, union { V_i } }
                ualign = max([t.align for t in allf] or [1])
                usize = 0
                self.variant_offsets = []
                for v in self.variants:
                    end, offs = self._fold(v[2])
                    valign = max([t.align for _, t in v[2]] or [1])
                    usize = max(usize, ceil_mul(end, valign))
                    self.variant_offsets.append(offs)
                usize = ceil_mul(usize, ualign)
                size = ceil_mul(ceil_mul(tag.size, ualign) + usize, align)
            t = T(n, size, align, portable=self.portable, default=self.default, trivial=False, comps=comps, kind="def")
        else:
            self.variant_offsets = []
            self.data_min_sizes = []
            for v in self.variants:
                end, offs = self._fold(v[2], last_min=True)
                self.variant_offsets.append(offs)
                self.data_min_sizes.append(end)
            min_size = ceil_mul(self.data_offset + min(self.data_min_sizes), align)
            ems = []
            flat_args = []
            okall = True
            for v in self.variants:
                for _, ft in v[2]:
                    if not ft.emplacers:
                        okall = False
                    else:
                        flat_args.append(ft.emplacers[-1])
            if okall:
                ems.append("%sInit<%s>" % (n, ", ".join(flat_args)))
            for v in self.variants:
                args = []
                ok = True
                for _, ft in v[2]:
                    if not ft.emplacers:
                        ok = False
                        break
                    args.append(ft.emplacers[-1])
                if ok:
                    ems.append("%sInit%s%s" % (n, v[0], ("<%s>" % ", ".join(args)) if args else ""))
            t = T(n, None, align, sized=False, portable=self.portable, default=self.default, trivial=False,
                  comps=comps, kind="def", emplacers=ems, min_size=min_size)
        return t

    # ---- rust source ---------------------------------------------------------------------
    def rust(self):
        if self.generic:
            gname, gdecl, _gargs, gmap = self.generic
            sp = lambda t: gmap.get(t.rust, t.rust)
        else:
            gname, gdecl = self.name, ""
            sp = lambda t: t.rust
        attrs = []
        if not self.sized:
            attrs.append("sized = false")
        if self.tag:
            attrs.append('tag_type = "%s"' % self.tag)
        if self.default:
            attrs.append("default = true")
        if self.portable:
            attrs.append("portable = true")
        a = "#[flatty::flat(%s)]" % ", ".join(attrs) if attrs else "#[flatty::flat]"
        vis = (self.vis + " ") if self.vis else ""
        if self.kind == "struct":
            if self.style == "named":
                body = " {\n" + "".join("    %s%s: %s,\n" % (vis, fn, sp(t)) for fn, t in self.fields) + "}"
            elif self.style == "tuple":
                body = "(" + ", ".join("%s%s" % (vis, sp(t)) for _, t in self.fields) + ");"
            else:
                body = ";"
            return "%s\n%sstruct %s%s%s\n%s" % (a, vis, gname, gdecl, body, self.extra)
        lines = []
        for i, (vn, st, fs, isdef) in enumerate(self.variants):
            pre = "    #[default]\n" if (isdef and self.default) else ""
            if vn in self.vattrs:
                pre = "    %s\n" % self.vattrs[vn] + pre
            d = ""
            if self.discrs and self.discrs[i] is not None:
                d = " = %d" % self.discrs[i]
            if st == "unit" or not fs:
                lines.append("%s    %s%s,\n" % (pre, vn, d))
            elif st == "tuple":
                lines.append("%s    %s(%s)%s,\n" % (pre, vn, ", ".join(sp(t) for _, t in fs), d))
            else:
                lines.append("%s    %s { %s }%s,\n" % (pre, vn, ", ".join("%s: %s" % (fn, sp(t)) for fn, t in fs), d))
        return "%s\n%senum %s%s {\n%s}\n%s" % (a, vis, gname, gdecl, "".join(lines), self.extra)

    def manifest(self):
        m = {"name": self.name, "generic": (self.generic[0] if self.generic else None),
             "kind": self.kind, "sized": self.sized, "tag": self.tag if self.kind == "enum" else None,
             "tag_eff": (self.tag or "u8") if self.kind == "enum" else None,
             "default": self.default, "portable": self.portable, "vis": self.vis, "c_like": self.c_like,
             "align": self.t.align, "size": self.t.size, "min_size": self.t.min_size,
             "emplacers": self.t.emplacers}
        if self.kind == "struct":
            m["fields"] = [{"name": fn, "ty": t.rust, "offset": o, "size": t.size, "align": t.align, "sized": t.sized,
                            "trivial": t.trivial, "kind": t.kind, "fty": t.fname, "default": t.default,
                            "elem_size": (t.elem.size if t.kind == "vec" else (1 if t.kind == "string" else None)),
                            "data_offset": getattr(t, "data_offset", None)}
                           for (fn, t), o in zip(self.fields, self.offsets)]
            if not self.sized:
                m["last_field_offset"] = self.last_field_offset
                m["min_size_unrounded"] = self.min_size_unrounded
        else:
            m["data_offset"] = self.data_offset
            m["variants"] = []
            for i, (vn, st, fs, isdef) in enumerate(self.variants):
                m["variants"].append({"name": vn, "style": st, "default": isdef,
                                      "discr": (self.discrs[i] if self.discrs else None),
                                      "fields": [{"name": fn, "ty": t.rust, "offset": o, "size": t.size, "align": t.align,
                                                  "sized": t.sized, "trivial": t.trivial, "kind": t.kind, "fty": t.fname, "default": t.default}
                                                 for (fn, t), o in zip(fs, self.variant_offsets[i])]})
            if not self.sized:
                m["data_min_sizes"] = self.data_min_sizes
        return m


# --------------------------------------------------------------------------------------

def build(tier):
    defs = []
    extra_types = []  # container instantiations etc.

    def D(*a, **k):
        d = Def(*a, **k)
        defs.append(d)
        return d

    # ---- building blocks
    s2 = D("S2", "struct", True, fields=[("a", U8), ("b", U16)], default=True)
    s8 = D("S8", "struct", True, fields=[("a", U64), ("b", U8)], default=True)
    s16 = D("S16", "struct", True, fields=[("a", U8), ("b", U128), ("c", U16)])
    sb = D("SB", "struct", True, fields=[("a", U8), ("b", U32), ("c", array(BOOL, 3))], default=True)
    st = D("STup", "struct", True, fields=[(None, U16), (None, BOOL), (None, U64)], style="tuple", default=True)
    su = D("SUnit", "struct", True, fields=[], style="unit", default=True)
    sdesc = D("SDesc", "struct", True, fields=[("a", U64), ("b", U32), ("c", U16), ("d", U8)], default=True)
    sz = D("SZst", "struct", True, fields=[("a", UNIT), ("b", array(U32, 0)), ("c", U16)], vis="")
    sp = D("SPort", "struct", True, fields=[("a", U8), ("b", LE_U16), ("c", BE_U32), ("d", array(LE_U64, 2)), ("e", BOOL)],
           default=True, portable=True)
    sp2 = D("SPort2", "struct", True, fields=[("x", LE_F64), ("y", BE_F32), ("z", I8)], default=True, portable=True)

    ec = D("ECl", "enum", True, variants=[("A", "unit", [], True), ("B", "unit", [], False), ("C", "unit", [], False)],
           default=True)
    ec16 = D("ECl16", "enum", True, tag="u16", variants=[("A", "unit", [], False), ("B", "unit", [], True)], default=True)
    ec32 = D("ECl32", "enum", True, tag="u32", variants=[("Only", "unit", [], True)], default=True)
    # explicit discriminants: field-less (u8 and a wide tag with a value >= 256) and data-carrying (sized / unsized further down)
    ecd = D("EClD", "enum", True, variants=[("A", "unit", [], False), ("B", "unit", [], True), ("C", "unit", [], False)],
            default=True, discrs=[1, 5, 9])
    ecd16 = D("EClD16", "enum", True, tag="u16", variants=[("A", "unit", [], False), ("B", "unit", [], True)], default=True, discrs=[7, 0x0300])
    esd = D("ESDisc", "enum", True, variants=[("A", "unit", [], True), ("B", "tuple", [(None, U8)], False),
                                               ("C", "named", [("a", U16)], False)], default=True, discrs=[1, 5, 9])
    # an omitted discriminant after an explicit one continues +1 (not the variant's position)
    esdi = D("ESDiscI", "enum", True, variants=[("A", "unit", [], True), ("B", "tuple", [(None, U8)], False),
                                                 ("C", "named", [("a", U16)], False)], default=True, discrs=[0x10, None, None])
    es = D("ESz", "enum", True, variants=[("A", "unit", [], True), ("B", "tuple", [(None, U16), (None, U8)], False),
                                            ("C", "named", [("a", U8), ("b", U16)], False), ("D", "tuple", [(None, U32)], False)],
           default=True)
    es32 = D("ESz32", "enum", True, tag="u32", variants=[("A", "tuple", [(None, BOOL)], False),
                                                           ("B", "named", [("x", U64), ("y", BOOL)], False),
                                                           ("C", "unit", [], True)], default=True)
    es16 = D("ESz16", "enum", True, tag="u16", variants=[("A", "tuple", [(None, U8), (None, U8), (None, U8)], True),
                                                           ("B", "tuple", [(None, s2.t)], False)], default=False)
    esp = D("ESPort", "enum", True, variants=[("A", "unit", [], True), ("B", "tuple", [(None, LE_U32), (None, sp.t)], False),
                                                ("C", "named", [("f", BE_F32)], False)], default=True, portable=True)
    esn = D("ESNest", "enum", True, variants=[("A", "tuple", [(None, ec.t), (None, es.t)], False),
                                                ("B", "tuple", [(None, array(ec16.t, 2))], False)], vis="pub(crate)")

    sized_pool = [U8, U16, U32, U64, U128, I32, F64, UNIT, BOOL, LE_U16, BE_U32, LE_F64, array(U8, 3), array(U16, 2),
                  array(BOOL, 2), s2.t, s8.t, s16.t, sb.t, ec.t, es.t, es32.t]

    # ---- containers
    vec_u8_u16 = flatvec(U8, U16)
    vec_u8_u8 = flatvec(U8, U8)
    vec_i32_u16 = flatvec(I32, U16)
    vec_u64_u32 = flatvec(U64, U32)
    vec_bool_u8 = flatvec(BOOL, U8)
    vec_bool_u16 = flatvec(BOOL, U16)
    vec_s8_u16 = flatvec(s8.t, U16)
    vec_es_u32 = flatvec(es.t, U32)
    vec_le = flatvec(LE_U32, LE_U16)
    vec_u16_u64 = flatvec(U16, U64)
    vec_u128_u8 = flatvec(U128, U8)
    vec_sb_usize = flatvec(sb.t, USIZE)
    str_u8 = flatstring(U8)
    str_u16 = flatstring(U16)
    str_u32 = flatstring(U32)
    str_le = flatstring(LE_U16)
    str_u64 = flatstring(U64)

    # ---- unsized structs
    us_a = D("USa", "struct", False, fields=[("a", U64), ("b", BOOL), ("v", vec_u8_u16)], default=True)
    us_b = D("USb", "struct", False, fields=[("a", U8), ("b", U16), ("c", vec_u64_u32)], default=True)
    us_c = D("USc", "struct", False, fields=[("v", vec_i32_u16)], default=True)
    us_d = D("USd", "struct", False, fields=[(None, U32), (None, U8), (None, vec_u8_u8)], style="tuple", default=False)
    us_e = D("USe", "struct", False, fields=[("a", U16), ("s", str_u16)], default=True)
    us_f = D("USf", "struct", False, fields=[("a", U128), ("b", sb.t), ("s", str_u8)])
    us_g = D("USg", "struct", False, fields=[("a", es.t), ("b", array(BOOL, 2)), ("v", vec_bool_u8)], default=True, vis="")
    us_p = D("USPort", "struct", False, fields=[("a", LE_U16), ("b", vec_le)], default=True, portable=True)
    us_p2 = D("USPort2", "struct", False, fields=[("a", sp.t), ("b", BOOL), ("s", str_le)], default=True, portable=True)

    flex_vec_u16 = flexvec(vec_i32_u16, U16)
    flex_usa_u32 = flexvec(us_a.t, U32)
    flex_str_u8 = flexvec(str_u8, U8)
    flex_u32_u8 = flexvec(U32, U8)
    flex_le = flexvec(vec_le, LE_U16)
    flex_bool_u16 = flexvec(BOOL, U16)

    us_h = D("USh", "struct", False, fields=[("a", U32), ("f", flex_vec_u16)], default=True)
    us_n = D("USNest", "struct", False, fields=[("a", U8), ("inner", us_a.t)], default=True)
    us_n2 = D("USNest2", "struct", False, fields=[("a", U16), ("inner", us_n.t)], default=True)
    # padding in front of the last *sized* field and a tail that is less aligned than the prefix (fold_size!'s terminal arm, LAST_FIELD_OFFSET)
    us_pad = D("USPad", "struct", False, fields=[("a", U8), ("b", U32), ("c", vec_u8_u8)], default=True)
    # the tail's granule (3-byte elements) does not tile the struct's alignment: as_bytes() of the struct must still cover the whole value
    vec_tri_u8 = flatvec(array(U8, 3), U8)
    us_tri = D("USTri", "struct", False, fields=[("id", U32), ("items", vec_tri_u8)], default=True)
    # macro hygiene: a user type with an inherent method named like a trait method the generated code calls on it
    us_inh = D("USInh", "struct", False, fields=[("kind", U8), ("items", vec_u8_u8)], default=True,
               extra="impl USInh {\n    /// number of items - ordinary user API with the name of FlatBase::size\n    pub fn size(&self) -> usize { self.items.len() }\n"
                     "    /// alignment of these records on the user's bus - ordinary user API with the name of FlatBase::ALIGN\n    pub const ALIGN: usize = 4;\n}\n")
    us_hij = D("USHij", "struct", False, fields=[("id", U32), ("payload", us_inh.t)], default=True)
    # ... and a field type with an inherent associated function named like FlatDefault::default_emplacer (a type-qualified path
    # `<Ty>::default_emplacer()` in generated code would resolve to it)
    s_dhij = D("SDefHij", "struct", True, fields=[("major", U8), ("minor", U8)], default=True,
               extra="impl SDefHij {\n    /// ordinary user API with the name of FlatDefault::default_emplacer\n    pub fn default_emplacer() -> Self { SDefHij { major: 3, minor: 7 } }\n}\n")
    us_dhij = D("USDefHij", "struct", False, fields=[("version", s_dhij.t), ("items", vec_u8_u8)], default=True)
    # every trait item name as an inherent item, on each kind of definition and on the types used inside them
    h_s = D("HSz", "struct", True, fields=[("a", U8), ("b", U16)], default=True, extra=hij_all("HSz"))
    h_ec = D("HECl", "enum", True, variants=[("A", "unit", [], True), ("B", "unit", [], False)], default=True, extra=hij_all("HECl"))
    h_es = D("HESz", "enum", True, variants=[("A", "unit", [], True), ("B", "tuple", [(None, h_s.t), (None, U8)], False)],
             default=True, extra=hij_all("HESz"))
    h_us = D("HUS", "struct", False, fields=[("a", h_s.t), ("e", h_es.t), ("items", vec_u8_u8)], default=True, extra=hij_all("HUS"))
    h_ue = D("HUE", "enum", False, variants=[("A", "unit", [], True), ("B", "tuple", [(None, h_ec.t), (None, h_us.t)], False),
                                              ("C", "named", [("x", h_s.t)], False)], default=True,
             extra=hij_all("HUE") +
             "// ... and on the generated tag helper of the unsized enum (it is emitted next to the type, so user code can name it)\n"
             "impl HUETag {\n"
             "    pub unsafe fn validate_unchecked(_: &[u8]) -> Result<(), flatty::Error> { Ok(()) }\n"
             "    pub unsafe fn from_bytes_unchecked(_: &[u8]) -> &Self { loop {} }\n"
             "    pub unsafe fn emplace_unchecked(self, _: &mut [u8]) -> Result<&mut Self, flatty::Error> { loop {} }\n"
             "}\n"
             "// ... and on the per-variant initialiser helper (also nameable)\n"
             "impl HUEInitA {\n"
             "    pub fn into(self) -> HUEInit<flatty::emplacer::NeverEmplacer, flatty::emplacer::NeverEmplacer, flatty::emplacer::NeverEmplacer> { loop {} }\n"
             "}\n")
    h_outer = D("HOuter", "struct", False, fields=[("id", U32), ("inner", h_ue.t)], default=True, extra=hij_all("HOuter"))
    # generic definitions (type and const parameters), each with two instantiations: the constants and rustc layouts of an instance
    # must follow the C rule for the substituted field list (layout rules only; the generated bodies are polymorphic)
    GB = "flatty::Flat + Default"
    for inst, (tt, n_) in (("A", (U32, 3)), ("B", (U8, 5))):
        gm = {tt.rust: "T", array(tt, n_).rust: "[T; N]", flatvec(tt, U16).rust: "flatty::FlatVec<T, u16>"}
        D("GSz" + inst, "struct", True, fields=[("a", U8), ("b", array(tt, n_)), ("c", tt)],
          generic=("GSz", "<T: %s, const N: usize>" % GB, "%s, %d" % (tt.rust, n_), gm))
        D("GESz" + inst, "enum", True, variants=[("A", "unit", [], True), ("B", "tuple", [(None, tt), (None, U8)], False),
                                                  ("C", "named", [("x", array(tt, n_))], False)],
          generic=("GESz", "<T: %s, const N: usize>" % GB, "%s, %d" % (tt.rust, n_), gm))
        D("GUS" + inst, "struct", False, fields=[("a", U8), ("b", array(tt, n_)), ("c", flatvec(tt, U16))],
          generic=("GUS", "<T: %s, const N: usize>" % GB, "%s, %d" % (tt.rust, n_), gm))
        D("GUE" + inst, "enum", False, variants=[("A", "unit", [], True), ("B", "tuple", [(None, U8), (None, tt)], False),
                                                  ("C", "tuple", [(None, array(tt, n_)), (None, flatvec(tt, U16))], False)],
          generic=("GUE", "<T: %s, const N: usize>" % GB, "%s, %d" % (tt.rust, n_), gm))
    us_pad2 = D("USPad2", "struct", False, fields=[("a", U8), ("b", U64), ("c", U16), ("s", str_u8)], default=True)

    # ---- unsized enums
    ue_a = D("UEa", "enum", False, variants=[("A", "unit", [], True), ("B", "tuple", [(None, I32)], False),
                                               ("C", "tuple", [(None, vec_i32_u16)], False)], default=True)
    ue_b = D("UEb", "enum", False, variants=[("A", "unit", [], False), ("B", "tuple", [(None, U8), (None, U16)], False),
                                               ("C", "named", [("a", U8), ("b", vec_u8_u16)], False)], default=False)
    ue_c = D("UEc", "enum", False, tag="u32", variants=[("A", "tuple", [(None, U8), (None, vec_u8_u8)], False),
                                                          ("B", "unit", [], True)], default=True)
    ue_d = D("UEd", "enum", False, tag="u16", variants=[("A", "named", [("x", U64), ("y", BOOL), ("z", vec_bool_u16)], False),
                                                          ("B", "tuple", [(None, BOOL)], False),
                                                          ("C", "tuple", [(None, str_u16)], False),
                                                          ("D", "unit", [], True)], default=True)
    ue_e = D("UEe", "enum", False, variants=[("A", "tuple", [(None, U8), (None, U32), (None, vec_u8_u8)], False),
                                               ("B", "tuple", [(None, us_a.t)], False),
                                               ("C", "tuple", [(None, es.t), (None, flex_str_u8)], False)], vis="pub")
    ue_disc = D("UEDisc", "enum", False, variants=[("A", "unit", [], True), ("B", "tuple", [(None, U8), (None, vec_u8_u8)], False),
                                                     ("C", "unit", [], False)], default=True, discrs=[3, 9, 4])
    ue_disci = D("UEDiscI", "enum", False, variants=[("A", "unit", [], True), ("B", "tuple", [(None, U8), (None, vec_u8_u8)], False),
                                                       ("C", "unit", [], False)], default=True, discrs=[0x10, None, None])
    # macro hygiene for enums: inherent constants named like the trait constants the generated code reads
    ue_inh = D("UEInh", "enum", False, variants=[("A", "unit", [], True), ("B", "tuple", [(None, U8), (None, vec_u8_u8)], False),
                                                   ("C", "tuple", [(None, U16)], False)], default=True,
               extra="impl UEInh {\n    /// ordinary user API with the names of FlatBase::ALIGN / MIN_SIZE\n    pub const ALIGN: usize = 8;\n    pub const MIN_SIZE: usize = 64;\n}\n")
    ue_s = D("UESz", "enum", False, variants=[("A", "unit", [], True), ("B", "tuple", [(None, U8), (None, U16)], False),
                                                ("C", "named", [("a", U8), ("b", U16), ("c", array(U8, 4))], False)], default=True)
    ue_p = D("UEPort", "enum", False, variants=[("A", "unit", [], True), ("B", "tuple", [(None, BE_F32), (None, sp.t)], False),
                                                  ("C", "tuple", [(None, us_p.t)], False)], default=True, portable=True)
    ue_n = D("UENest", "enum", False, variants=[("A", "tuple", [(None, ue_a.t)], False), ("B", "tuple", [(None, U64)], False), ("Z", "unit", [], True)],
             default=True, vis="")
    ue_t32 = D("UETag32", "enum", False, tag="u32", variants=[("A", "tuple", [(None, U8), (None, str_u8)], False),
                                                                ("B", "tuple", [(None, BOOL)], False)], default=False)
    ue_at = D("UEAttr", "enum", False, variants=[("A", "unit", [], False), ("B", "tuple", [(None, U16), (None, vec_u8_u8)], False),
                                                  ("C", "unit", [], True), ("D", "unit", [], False)], default=True,
              vattrs={"A": "#[rustfmt::skip]", "D": "#[allow(dead_code)]"})
    es_at = D("ESAttr", "enum", True, tag="u16", variants=[("A", "unit", [], False), ("B", "tuple", [(None, U32)], False), ("C", "unit", [], True)],
              default=True, vattrs={"A": "#[rustfmt::skip]"})
    us_n3 = D("USNest3", "struct", False, fields=[("t", U8), ("e", ue_b.t)], default=False)
    flex_ue = flexvec(ue_a.t, U16)
    us_i = D("USi", "struct", False, fields=[("n", U16), ("items", flex_ue)], default=True)

    containers = [vec_u8_u16, vec_u8_u8, vec_i32_u16, vec_u64_u32, vec_bool_u8, vec_bool_u16, vec_s8_u16, vec_es_u32,
                  vec_le, vec_u16_u64, vec_u128_u8, vec_sb_usize, str_u8, str_u16, str_u32, str_le, str_u64,
                  flex_vec_u16, flex_usa_u32, flex_str_u8, flex_u32_u8, flex_le, flex_bool_u16, flex_ue]
    # width/zst matrix instances (validation totality corner cases)
    containers += [flatvec(U16, U24), flexvec(U16, U24), flatstring(U24), flatvec(U32, U24)]
    containers += [flatvec(U8, U128), flatvec(UNIT, U8), flatstring(U128), flexvec(U8, U8), flexvec(U8, U128),
                   flatvec(array(U8, 3), U16), flatvec(U16, LE_U64), flatvec(LE_U16, BE_U32), flexvec(str_le, BE_U16)]

    if tier == "thorough":
        # systematic sweeps: (a) sized struct of every ordered pair / some triples of the pool,
        # (b) unsized struct prefix x tail, (c) enums over tag types, (d) (T, L) matrix.
        k = 0
        tails = [vec_u8_u16, vec_u64_u32, vec_bool_u8, str_u16, str_le, flex_vec_u16, us_a.t, ue_b.t, vec_u8_u8]
        for a, b in itertools.permutations(sized_pool, 2):
            k += 1
            D("TP%d" % k, "struct", True, fields=[("a", a), ("b", b)])
        k = 0
        import random
        rnd = random.Random(12345)
        trip = list(itertools.permutations(sized_pool, 3))
        rnd.shuffle(trip)
        for a, b, c in trip[:150]:
            k += 1
            D("TT%d" % k, "struct", True, fields=[("a", a), ("b", b), ("c", c)])
        k = 0
        for pre in [()] + [(a,) for a in sized_pool] + rnd.sample(list(itertools.permutations(sized_pool, 2)), 60):
            for tail in tails:
                k += 1
                port = all(x.portable for x in pre) and tail.portable
                D("TU%d" % k, "struct", False, fields=[("f%d" % i, x) for i, x in enumerate(pre)] + [("t", tail)],
                  portable=port, default=all(x.default for x in pre) and tail.default)
        k = 0
        for tag in (None, "u8", "u16", "u32"):
            for a, b in rnd.sample(list(itertools.permutations(sized_pool, 2)), 40):
                k += 1
                D("TE%d" % k, "enum", True, tag=tag, variants=[("A", "tuple", [(None, a)], False), ("B", "unit", [], False),
                                                                ("C", "named", [("x", b), ("y", a)], False)])
                tail = tails[k % len(tails)]
                D("TF%d" % k, "enum", False, tag=tag, variants=[("A", "tuple", [(None, a), (None, tail)], False),
                                                                 ("B", "unit", [], False),
                                                                 ("C", "named", [("x", b), ("y", a)], False),
                                                                 ("D", "tuple", [(None, b), (None, a), (None, tails[(k + 3) % len(tails)])], False)])
        lens = [U8, U16, U32, U64, USIZE, U128, LE_U16, BE_U32, LE_U64]
        elems = [U8, U16, array(U8, 3), U32, U64, U128, UNIT, BOOL, s8.t, LE_U16]
        have = {c.rust for c in containers}
        for e in elems:
            for l in lens:
                for c in (flatvec(e, l), flexvec(e, l)):
                    if c.rust not in have:
                        containers.append(c)
                        have.add(c.rust)
        for l in lens:
            c = flatstring(l)
            if c.rust not in have:
                containers.append(c)
                have.add(c.rust)

    return defs, containers


# --------------------------------------------------------------------------------------

def ident(s):
    out = []
    for ch in s:
        out.append(ch if ch.isalnum() else "_")
    return "".join(out)


def emit(defs, containers, out, tier):
    os.makedirs(os.path.join(out, "src"), exist_ok=True)
    os.makedirs(os.path.join(out, ".cargo"), exist_ok=True)
    open(os.path.join(out, "Cargo.toml"), "w").write("""[package]
name = "flatty-corpus"
version = "0.0.0"
edition = "2021"

[workspace]

[dependencies]
flatty = { path = "/repo" }
flatty-io = { path = "/repo/io" }
futures = "0.3.25"
num-traits = { version = "0.2", default-features = false }
""")
    open(os.path.join(out, ".cargo", "config.toml"), "w").write("[net]\noffline = true\n")
    src = []
    src.append("// GENERATED by /verif/corpus/gen.py (tier %s) -- do not edit\n" % tier)
    src.append("#![allow(dead_code, unused, non_snake_case, non_camel_case_types, non_upper_case_globals, clippy::all)]\n")
    src.append("use flatty::traits::*;\nuse flatty::Emplacer;\n\nfn r<T>(_: T) {}\n\n")
    src.append(U24_PRELUDE)
    emitted = set()
    for d in defs:
        if d.generic:
            if d.generic[0] in emitted:
                continue
            emitted.add(d.generic[0])
        src.append(d.rust())
        src.append("\n")
    types = {}  # ident -> T
    for d in defs:
        types[d.name] = d.t
    for c in containers:
        types["K_" + ident(c.rust.replace("flatty::", "").replace("portable::", ""))] = c
    man_types = {}
    roots = []
    for nm, t in types.items():
        src.append("pub fn __ty_%s(_: &%s) {}\n" % (nm, t.rust))
        X = t.rust
        roots.append(("validate", nm))
        src.append("pub fn __root_validate__%s() { r(<%s as FlatValidate>::validate); r(<%s as FlatValidate>::from_bytes); "
                   "r(<%s as FlatValidate>::from_mut_bytes); }\n" % (nm, X, X, X))
        src.append("pub fn __root_size__%s() { r(<%s as FlatBase>::size); }\n" % (nm, X))
        if t.defn is not None and t.defn.generic and not t.sized:
            src.append("pub fn __root_view__%s() { r(<%s as FlatUnsized>::ptr_from_bytes); r(<%s as FlatUnsized>::ptr_to_bytes); }\n" % (nm, X, X))
        if t.default:
            src.append("pub fn __root_default__%s() { r(<%s as flatty::FlatDefault>::default_in_place); }\n" % (nm, X))
        for i, e in enumerate(t.emplacers):
            src.append("pub fn __root_emplace__%s__%d() { r(<%s as FlatUnsized>::new_in_place::<%s>); }\n" % (nm, i, X, e))
            if not t.sized:
                src.append("pub fn __root_assign__%s__%d() { r(<%s as FlatUnsized>::assign_in_place::<%s>); }\n" % (nm, i, X, e))
        if t.defn is not None and t.defn.kind == "enum" and not t.defn.sized:
            src.append("pub fn __root_access__%s() { r(<%s>::as_ref); r(<%s>::as_mut); r(<%s>::tag); }\n" % (nm, X, X, X))
        if t.kind == "flex":
            F = X
            src.append("pub fn __root_flexapi__%s(v: &mut %s) { r(<%s>::len); r(<%s>::is_empty); r(<%s>::pop); r(<%s>::truncate); "
                       "r(<%s>::clear); for _ in v.iter() {} for _ in v.iter_mut() {} }\n" % (nm, F, F, F, F, F, F))
            if t.elem.emplacers:
                src.append("pub fn __root_flexpush__%s() { r(<%s>::push::<%s>); }\n" % (nm, F, t.elem.emplacers[-1]))
            if t.elem.default:
                src.append("pub fn __root_flexpushd__%s() { r(<%s>::push_default); }\n" % (nm, F))
        if t.kind == "def" and not t.sized and False:
            pass
        m = t.describe()
        if t.defn is not None:
            m["def"] = t.defn.manifest()
        if t.kind == "vec" or t.kind == "string":
            m["data_offset"] = t.data_offset
            m["len_ty"] = t.len_ty.rust
            m["len_size"] = t.len_ty.size
            if t.kind == "vec":
                m["elem"] = t.elem.rust
                m["elem_size"] = t.elem.size
                m["elem_align"] = t.elem.align
        if t.kind == "flex":
            m["offset_size"] = t.offset_size
            m["len_ty"] = t.len_ty.rust
            m["len_size"] = t.len_ty.size
            m["elem"] = t.elem.rust
            m["elem_align"] = t.elem.align
        m["emplacers"] = t.emplacers
        man_types[nm] = m
    # twins: repr(C) structs of the declared field lists (rustc's layout of them = "plain C layout rule")
    for d in defs:
        if d.kind == "struct" and d.fields:
            fs = []
            for _, t in d.fields:
                fs.append(t.rust if t.sized else "<%s as FlatUnsized>::AlignAs" % t.rust)
            src.append("#[repr(C)] pub struct Twin_%s(%s);\npub fn __ty_Twin_%s(_: &Twin_%s) {}\n" % (
                d.name, ", ".join("pub " + f for f in fs), d.name, d.name))
        if d.kind == "enum" and not d.c_like:
            for (vn, stl, fs, _) in d.variants:
                if not fs:
                    continue
                ff = []
                for _, t in fs:
                    ff.append(t.rust if t.sized else "<%s as FlatUnsized>::AlignAs" % t.rust)
                src.append("#[repr(C)] pub struct Twin_%s_%s(%s);\npub fn __ty_Twin_%s_%s(_: &Twin_%s_%s) {}\n" % (
                    d.name, vn, ", ".join("pub " + f for f in ff), d.name, vn, d.name, vn))
    # portable scalar aliases (C16): marker per alias, the facts show what the alias resolves to
    aliases = {}
    for mod in ("le", "be"):
        for n in ("U16", "U32", "U64", "I16", "I32", "I64", "F32", "F64"):
            nm = "P_%s_%s" % (mod, n)
            src.append("pub fn __ty_%s(_: &flatty::portable::%s::%s) {}\n" % (nm, mod, n))
            aliases[nm] = {"mod": mod, "name": n, "be": mod == "be", "bytes": int(n[1:]) // 8, "float": n[0] == "F", "signed": n[0] == "I"}
    src.append("pub fn __ty_P_Bool(_: &flatty::portable::Bool) {}\n")
    # IO instantiations
    src.append(IO_SRC)
    msgs = [n for n in ("UEa", "UEb", "UEd", "USa", "USe", "USh", "S8", "ESz", "K_FlatVec_u8__u16_", "K_FlatString_u16_")
            if n in types]
    for nm in msgs:
        X = types[nm].rust
        src.append("pub fn __root_recv__%s(g: flatty_io::blocking::RecvGuard<'_, %s, flatty_io::IoBuffer<DummyR>>) { "
                   "r(flatty_io::Receiver::<%s, flatty_io::IoBuffer<DummyR>>::recv); "
                   "let _ = core::ops::Deref::deref(&g); drop(g); }\n" % (nm, X, X))
        src.append("pub fn __root_arecv__%s(g: flatty_io::async_::RecvGuard<'_, %s, flatty_io::IoBuffer<DummyAR>>) { "
                   "r(flatty_io::AsyncReceiver::<%s, flatty_io::IoBuffer<DummyAR>>::recv); "
                   "let _ = core::ops::Deref::deref(&g); drop(g); }\n" % (nm, X, X))
        src.append("pub fn __root_send__%s(g: flatty_io::blocking::SendGuard<'_, %s, flatty_io::IoBuffer<DummyW>>) { "
                   "r(flatty_io::Sender::<%s, flatty_io::IoBuffer<DummyW>>::alloc); let _ = core::ops::Deref::deref(&g); let _ = g.send(); }\n" % (nm, X, X))
        src.append("pub fn __root_asend__%s(g: flatty_io::async_::SendGuard<'_, %s, flatty_io::IoBuffer<DummyAW>>) { "
                   "r(flatty_io::AsyncSender::<%s, flatty_io::IoBuffer<DummyAW>>::alloc); let f = g.send(); "
                   "r(<<flatty_io::IoBuffer<DummyAW> as flatty_io::AsyncWriteBuffer>::WriteAll<'_> as core::future::Future>::poll); }\n" % (nm, X, X))
    src.append("pub fn __root_iobuf() { r(<flatty_io::IoBuffer<DummyR> as flatty_io::ReadBuffer>::read); "
               "r(<flatty_io::IoBuffer<DummyR> as flatty_io::ReadBuffer>::skip); "
               "r(<flatty_io::IoBuffer<DummyW> as flatty_io::WriteBuffer>::write_all); r(<flatty_io::IoBuffer<DummyW> as flatty_io::WriteBuffer>::alloc); "
               "r(<flatty_io::IoBuffer<DummyAR> as flatty_io::AsyncReadBuffer>::poll_read); "
               "r(<flatty_io::IoBuffer<DummyAW> as flatty_io::AsyncWriteBuffer>::poll_alloc); }\n")
    open(os.path.join(out, "src", "lib.rs"), "w").write("".join(src))
    tys = {}

    def collect(t):
        if t.fname in tys:
            return
        tys[t.fname] = {"trivial": t.trivial, "comps": [c.fname for c in t.comps], "kind": t.kind, "sized": t.sized}
        for c in t.comps:
            collect(c)
    for t in types.values():
        collect(t)
    man = {"tier": tier, "types": man_types, "io_messages": msgs, "tys": tys, "portable_aliases": aliases,
           "n_defs": len(defs), "n_containers": len(containers)}
    json.dump(man, open(os.path.join(out, "manifest.json"), "w"), indent=1)


IO_SRC = """
pub struct DummyR;
impl std::io::Read for DummyR { fn read(&mut self, b: &mut [u8]) -> std::io::Result<usize> { Ok(0) } }
pub struct DummyW;
impl std::io::Write for DummyW { fn write(&mut self, b: &[u8]) -> std::io::Result<usize> { Ok(b.len()) } fn flush(&mut self) -> std::io::Result<()> { Ok(()) } }
pub struct DummyAR;
impl futures::io::AsyncRead for DummyAR {
    fn poll_read(self: core::pin::Pin<&mut Self>, cx: &mut core::task::Context<'_>, buf: &mut [u8]) -> core::task::Poll<std::io::Result<usize>> { core::task::Poll::Pending }
}
pub struct DummyAW;
impl futures::io::AsyncWrite for DummyAW {
    fn poll_write(self: core::pin::Pin<&mut Self>, cx: &mut core::task::Context<'_>, buf: &[u8]) -> core::task::Poll<std::io::Result<usize>> { core::task::Poll::Pending }
    fn poll_flush(self: core::pin::Pin<&mut Self>, cx: &mut core::task::Context<'_>) -> core::task::Poll<std::io::Result<()>> { core::task::Poll::Pending }
    fn poll_close(self: core::pin::Pin<&mut Self>, cx: &mut core::task::Context<'_>) -> core::task::Poll<std::io::Result<()>> { core::task::Poll::Pending }
}
"""


def main():
    ap = argparse.ArgumentParser()
    ap.add_argument("--tier", default="quick")
    ap.add_argument("--out", required=True)
    a = ap.parse_args()
    defs, containers = build(a.tier)
    emit(defs, containers, a.out, a.tier)
    print("corpus %s: %d definitions, %d container instantiations" % (a.tier, len(defs), len(containers)))


if __name__ == "__main__":
    main()
