#![allow(dead_code, unused)]
use flatty::{flat, prelude::*, FlatVec, FlexVec, FlatString, portable::{le, be, Bool}};

#[flat(sized = false, default = true)]
pub enum UE {
    #[default]
    A,
    B(i32),
    C(u8, FlatVec<Bool, u16>),
}

#[flat(sized = false, default = true)]
pub struct US {
    pub a: u64,
    pub b: Bool,
    pub v: FlatVec<u8, u16>,
}

#[flat]
pub struct SS { a: u8, b: u32, c: [Bool; 3] }

fn r<T>(_: T) {}
pub fn __ty_UE(_: &UE) {}
pub fn __ty_US(_: &US) {}
pub fn __ty_SS(_: &SS) {}
pub fn __ty_flex(_: &FlexVec<FlatVec<i32, u16>, u16>) {}
pub fn __ty_str(_: &FlatString<le::U16>) {}

pub fn __root_validate__UE() { r(<UE as FlatValidate>::validate); r(<UE as FlatValidate>::from_bytes); }
pub fn __root_validate__US() { r(<US as FlatValidate>::validate); }
pub fn __root_validate__flex() { r(<FlexVec<FlatVec<i32,u16>,u16> as FlatValidate>::validate); }
pub fn __root_validate__str() { r(<FlatString<le::U16> as FlatValidate>::validate); }
pub fn __root_size__flex() { r(<FlexVec<FlatVec<i32,u16>,u16> as FlatBase>::size); }
