//! flatty-facts: a rustc_private driver that exports facts about the type-checked
//! program (MIR bodies, monomorphic call graph, constants, layouts, impls) as JSON lines.
//!
//! Used as RUSTC_WORKSPACE_WRAPPER; nothing of the analysed program is executed.
#![feature(rustc_private)]
#![allow(clippy::all)]

extern crate rustc_abi;
extern crate rustc_driver;
extern crate rustc_hir;
extern crate rustc_interface;
extern crate rustc_middle;
extern crate rustc_span;

mod json;

use json::J;
use rustc_abi::{FieldsShape, VariantIdx, Variants};
use rustc_driver::{run_compiler, Callbacks, Compilation};
use rustc_hir::def::DefKind;
use rustc_hir::def_id::{DefId, LOCAL_CRATE};
use rustc_interface::interface::Compiler;
use rustc_middle::mir::{
    self, AggregateKind, AssertKind, BinOp, Body, CastKind, Const, ConstOperand, ConstValue,
    Operand, Place, ProjectionElem, Rvalue, StatementKind, TerminatorKind, UnwindAction,
};
use rustc_middle::ty::print::{with_no_trimmed_paths, with_no_visible_paths, with_resolve_crate_name};
use rustc_middle::ty::{
    self, EarlyBinder, GenericArgsRef, Instance, InstanceKind, Ty, TyCtxt, TypingEnv,
};
use rustc_span::{Span, Symbol, DUMMY_SP};
use std::collections::{HashMap, HashSet, VecDeque};
use std::path::PathBuf;

struct NoCb;
impl Callbacks for NoCb {}

struct Cb {
    out_dir: PathBuf,
    full_crates: Vec<String>,
}

impl Callbacks for Cb {
    fn after_analysis<'tcx>(&mut self, _c: &Compiler, tcx: TyCtxt<'tcx>) -> Compilation {
        if tcx.dcx().has_errors().is_some() {
            return Compilation::Continue;
        }
        let mut ex = Ex::new(tcx, self.full_crates.clone());
        ex.run();
        let name = tcx.crate_name(LOCAL_CRATE).to_string();
        let is_test = tcx.sess.is_test_crate();
        let file = self.out_dir.join(format!(
            "{}{}.{}.jsonl",
            name,
            if is_test { "-test" } else { "" },
            std::process::id()
        ));
        let mut s = String::new();
        for l in &ex.lines {
            s.push_str(l);
            s.push('\n');
        }
        std::fs::write(&file, s).expect("write facts");
        Compilation::Continue
    }
}

fn main() {
    let mut args: Vec<String> = std::env::args().collect();
    if args.len() > 1 {
        let p = std::path::Path::new(&args[1]);
        if p.file_stem().map(|s| s == "rustc").unwrap_or(false) {
            args.remove(1);
        }
    }
    let out = std::env::var("FLATTY_FACTS_OUT").ok();
    let wanted: Vec<String> = std::env::var("FLATTY_FACTS_CRATES")
        .unwrap_or_default()
        .split(',')
        .filter(|s| !s.is_empty())
        .map(|s| s.to_string())
        .collect();
    let full: Vec<String> = std::env::var("FLATTY_FACTS_FULL")
        .unwrap_or_default()
        .split(',')
        .filter(|s| !s.is_empty())
        .map(|s| s.to_string())
        .collect();
    let mut crate_name = None;
    for (i, a) in args.iter().enumerate() {
        if a == "--crate-name" && i + 1 < args.len() {
            crate_name = Some(args[i + 1].clone());
        }
    }
    let is_probe = args.iter().any(|a| a.starts_with("--print") || a == "-vV" || a == "-V");
    match (out, crate_name) {
        (Some(out), Some(cn)) if !is_probe && wanted.iter().any(|w| *w == cn) => {
            let mut cb = Cb { out_dir: PathBuf::from(out), full_crates: full };
            run_compiler(&args, &mut cb);
        }
        _ => {
            run_compiler(&args, &mut NoCb);
        }
    }
}

// ---------------------------------------------------------------------------------------

struct Ex<'tcx> {
    tcx: TyCtxt<'tcx>,
    lines: Vec<String>,
    full_crates: Vec<String>,
    seen_inst: HashSet<String>,
    work: VecDeque<Instance<'tcx>>,
    seen_layout: HashSet<String>,
    seen_consts: HashSet<String>,
}

fn np<T, F: FnOnce() -> T>(f: F) -> T {
    with_resolve_crate_name!(with_no_visible_paths!(with_no_trimmed_paths!(f())))
}

impl<'tcx> Ex<'tcx> {
    fn new(tcx: TyCtxt<'tcx>, full_crates: Vec<String>) -> Self {
        Ex {
            tcx,
            lines: Vec::new(),
            full_crates,
            seen_inst: HashSet::new(),
            work: VecDeque::new(),
            seen_layout: HashSet::new(),
            seen_consts: HashSet::new(),
        }
    }

    fn emit(&mut self, j: J) {
        let mut s = String::new();
        j.write(&mut s);
        self.lines.push(s);
    }

    fn path(&self, did: DefId) -> String {
        np(|| self.tcx.def_path_str(did))
    }
    fn tystr(&self, ty: Ty<'tcx>) -> String {
        np(|| ty.to_string())
    }
    fn krate(&self, did: DefId) -> String {
        self.tcx.crate_name(did.krate).to_string()
    }
    fn span(&self, sp: Span) -> String {
        if sp.is_dummy() {
            return String::new();
        }
        let sm = self.tcx.sess.source_map();
        let sp = sp.source_callsite();
        let loc = sm.lookup_char_pos(sp.lo());
        let s = sm.span_to_diagnostic_string(sp);
        // "file:line:col: line:col" -> file:line
        let mut parts = s.splitn(3, ':');
        let f = parts.next().unwrap_or("");
        format!("{}:{}", f, loc.line)
    }
    fn args_j(&self, args: GenericArgsRef<'tcx>) -> J {
        J::Arr(args.iter().map(|a| J::s(np(|| a.to_string()))).collect())
    }

    fn run(&mut self) {
        let tcx = self.tcx;
        let name = tcx.crate_name(LOCAL_CRATE).to_string();
        self.emit(obj! {"kind": J::s("crate"), "name": J::s(name.clone()), "test": J::Bool(tcx.sess.is_test_crate())});
        // 1. polymorphic bodies of every local fn / closure
        let owners: Vec<_> = tcx.hir_body_owners().collect();
        let mut roots = Vec::new();
        let mut tymarks = Vec::new();
        for ldid in owners {
            let did = ldid.to_def_id();
            let kind = tcx.def_kind(did);
            match kind {
                DefKind::Fn | DefKind::AssocFn | DefKind::Closure | DefKind::SyntheticCoroutineBody => {}
                _ => continue,
            }
            let iname = tcx.opt_item_name(did).map(|s| s.to_string()).unwrap_or_default();
            if iname.starts_with("__root_") {
                roots.push(did);
            }
            if iname.starts_with("__ty_") {
                tymarks.push(did);
            }
            if !tcx.is_mir_available(did) {
                continue;
            }
            let body = tcx.optimized_mir(did);
            let tenv = TypingEnv::post_analysis(tcx, did);
            let idargs = ty::GenericArgs::identity_for_item(tcx, did);
            let id = np(|| tcx.def_path_str_with_args(did, idargs));
            let j = self.body_fact(did, id, body, tenv, false, idargs, None);
            self.emit(j);
        }
        // 2. items: impls, adts
        self.items();
        // 3. type markers: consts + layouts
        for did in tymarks {
            self.type_marker(did);
        }
        // 4. monomorphic walk
        for did in roots {
            self.root(did);
        }
        self.walk();
    }

    // ---------------------------------------------------------------- bodies

    #[allow(clippy::too_many_arguments)]
    fn body_fact(
        &mut self,
        did: DefId,
        id: String,
        body: &Body<'tcx>,
        tenv: TypingEnv<'tcx>,
        mono: bool,
        args: GenericArgsRef<'tcx>,
        callees: Option<&mut Vec<(Instance<'tcx>, &'static str)>>,
    ) -> J {
        let tcx = self.tcx;
        let kind = tcx.def_kind(did);
        let is_fn = matches!(kind, DefKind::Fn | DefKind::AssocFn);
        let unsafe_ = if is_fn {
            tcx.fn_sig(did).skip_binder().safety().is_unsafe()
        } else {
            false
        };
        let vis = if is_fn { np(|| format!("{:?}", tcx.visibility(did))) } else { String::new() };
        let (impl_j, derived) = self.impl_info(did);
        let mut locals = Vec::new();
        let mut names: HashMap<usize, String> = HashMap::new();
        for vdi in &body.var_debug_info {
            if let mir::VarDebugInfoContents::Place(p) = &vdi.value {
                if p.projection.is_empty() {
                    names.entry(p.local.as_usize()).or_insert_with(|| vdi.name.to_string());
                }
            }
        }
        for (l, decl) in body.local_decls.iter_enumerated() {
            locals.push(obj! {
                "ty": J::s(self.tystr(decl.ty)),
                "name": J::opt_s(names.get(&l.as_usize()).cloned()),
            });
        }
        let mut callees_local = Vec::new();
        let mut blocks = Vec::new();
        for (_bb, data) in body.basic_blocks.iter_enumerated() {
            let mut st = Vec::new();
            for s in &data.statements {
                match &s.kind {
                    StatementKind::Assign(b) => {
                        let (pl, rv) = &**b;
                        st.push(obj! {
                            "l": self.place(pl),
                            "r": self.rvalue(rv, body, tenv, &mut callees_local),
                            "sp": J::s(self.span(s.source_info.span)),
                        });
                    }
                    StatementKind::SetDiscriminant { place, variant_index } => {
                        st.push(obj! {
                            "l": self.place(place),
                            "r": obj!{"setdiscr": J::Int(variant_index.as_usize() as i128)},
                            "sp": J::s(self.span(s.source_info.span)),
                        });
                    }
                    StatementKind::Intrinsic(i) => {
                        st.push(obj! {
                            "l": J::Null,
                            "r": obj!{"intrinsic": J::s(format!("{:?}", i))},
                            "sp": J::s(self.span(s.source_info.span)),
                        });
                    }
                    _ => {}
                }
            }
            let term = data.terminator();
            let t = self.terminator(term, body, tenv, &mut callees_local);
            blocks.push(obj! {"st": J::Arr(st), "t": t, "cleanup": J::Bool(data.is_cleanup)});
        }
        if let Some(c) = callees {
            c.extend(callees_local);
        }
        let parent = tcx.opt_parent(did).map(|p| self.path(p));
        obj! {
            "kind": J::s("body"),
            "id": J::s(id),
            "def": J::s(self.path(did)),
            "name": J::s(tcx.opt_item_name(did).map(|s| s.to_string()).unwrap_or_else(|| format!("{:?}", kind))),
            "parent": J::opt_s(parent),
            "krate": J::s(self.krate(did)),
            "mono": J::Bool(mono),
            "args": self.args_j(args),
            "span": J::s(self.span(tcx.def_span(did))),
            "from_expansion": J::Bool(tcx.def_span(did).from_expansion()),
            "unsafe": J::Bool(unsafe_),
            "vis": J::s(vis),
            "defkind": J::s(format!("{:?}", kind)),
            "coroutine": J::Bool(tcx.is_coroutine(did)),
            "impl": impl_j,
            "derived": J::Bool(derived),
            "argc": J::Int(body.arg_count as i128),
            "locals": J::Arr(locals),
            "blocks": J::Arr(blocks),
        }
    }

    /// (impl info, automatically_derived) for an associated fn or a closure inside one.
    fn impl_info(&self, did: DefId) -> (J, bool) {
        let tcx = self.tcx;
        let mut cur = did;
        // climb out of closures
        loop {
            match tcx.def_kind(cur) {
                DefKind::Closure | DefKind::SyntheticCoroutineBody | DefKind::InlineConst | DefKind::AnonConst => {
                    cur = tcx.parent(cur);
                }
                _ => break,
            }
        }
        if tcx.def_kind(cur) != DefKind::AssocFn {
            return (J::Null, false);
        }
        let parent = tcx.parent(cur);
        match tcx.def_kind(parent) {
            DefKind::Impl { of_trait } => {
                let self_ty = tcx.type_of(parent).instantiate_identity().skip_norm_wip();
                let tr = if of_trait {
                    let tref = tcx.impl_trait_ref(parent).instantiate_identity().skip_norm_wip();
                    Some((self.path(tref.def_id), np(|| tref.to_string())))
                } else {
                    None
                };
                let derived = tcx.is_automatically_derived(parent);
                (
                    obj! {
                        "def": J::s(self.path(parent)),
                        "self": J::s(self.tystr(self_ty)),
                        "self_adt": J::opt_s(self_ty.ty_adt_def().map(|a| self.path(a.did()))),
                        "trait": J::opt_s(tr.as_ref().map(|t| t.0.clone())),
                        "trait_ref": J::opt_s(tr.map(|t| t.1)),
                        "method": J::s(tcx.item_name(cur).to_string()),
                    },
                    derived,
                )
            }
            DefKind::Trait => (
                obj! {
                    "def": J::s(self.path(parent)),
                    "self": J::s("Self"),
                    "self_adt": J::Null,
                    "trait": J::s(self.path(parent)),
                    "trait_ref": J::Null,
                    "method": J::s(tcx.item_name(cur).to_string()),
                    "provided": J::Bool(true),
                },
                false,
            ),
            _ => (J::Null, false),
        }
    }

    fn place(&self, p: &Place<'tcx>) -> J {
        let mut proj = Vec::new();
        for e in p.projection.iter() {
            proj.push(match e {
                ProjectionElem::Deref => J::s("*"),
                ProjectionElem::Field(f, ty) => obj! {"f": J::Int(f.as_usize() as i128), "ty": J::s(self.tystr(ty))},
                ProjectionElem::Index(l) => obj! {"i": J::Int(l.as_usize() as i128)},
                ProjectionElem::ConstantIndex { offset, min_length, from_end } => {
                    obj! {"ci": J::Arr(vec![J::Int(offset as i128), J::Int(min_length as i128), J::Bool(from_end)])}
                }
                ProjectionElem::Subslice { from, to, from_end } => {
                    obj! {"sub": J::Arr(vec![J::Int(from as i128), J::Int(to as i128), J::Bool(from_end)])}
                }
                ProjectionElem::Downcast(name, v) => {
                    obj! {"dc": J::Int(v.as_usize() as i128), "name": J::opt_s(name.map(|s| s.to_string()))}
                }
                ProjectionElem::OpaqueCast(_) => J::s("opaque"),
                ProjectionElem::UnwrapUnsafeBinder(_) => J::s("unwrap_binder"),
            });
        }
        obj! {"v": J::Int(p.local.as_usize() as i128), "p": J::Arr(proj)}
    }

    fn operand(
        &self,
        o: &Operand<'tcx>,
        tenv: TypingEnv<'tcx>,
        callees: &mut Vec<(Instance<'tcx>, &'static str)>,
    ) -> J {
        match o {
            Operand::Copy(p) => obj! {"c": self.place(p)},
            Operand::Move(p) => obj! {"m": self.place(p)},
            Operand::Constant(c) => obj! {"k": self.constant(c, tenv, callees, "fnref")},
            Operand::RuntimeChecks(rc) => obj! {"k": obj!{"ty": J::s("bool"), "rtc": J::s(format!("{:?}", rc))}},
        }
    }

    fn scalar_j(&self, c: &Const<'tcx>, tenv: TypingEnv<'tcx>) -> Option<J> {
        let ty = c.ty();
        let ok = ty.is_integral() || ty.is_bool() || ty.is_char();
        if !ok {
            return None;
        }
        let si = c.try_eval_scalar_int(self.tcx, tenv)?;
        let sz = si.size();
        if ty.is_signed() {
            Some(J::Int(si.to_int(sz)))
        } else {
            let u = si.to_uint(sz);
            if u <= i128::MAX as u128 {
                Some(J::Int(u as i128))
            } else {
                Some(J::s(format!("{}", u)))
            }
        }
    }

    fn constant(
        &self,
        c: &ConstOperand<'tcx>,
        tenv: TypingEnv<'tcx>,
        callees: &mut Vec<(Instance<'tcx>, &'static str)>,
        why: &'static str,
    ) -> J {
        let ty = c.const_.ty();
        let mut f: Vec<(&'static str, J)> = vec![("ty", J::s(self.tystr(ty)))];
        match ty.kind() {
            ty::FnDef(did, args) => {
                f.push(("fn", self.fnref(*did, args, tenv, callees, why)));
            }
            _ => {
                if let Some(v) = self.scalar_j(&c.const_, tenv) {
                    f.push(("int", v));
                } else if let Const::Unevaluated(u, _) = c.const_ {
                    f.push(("uneval", J::s(np(|| self.tcx.def_path_str_with_args(u.def, u.args)))));
                    if let Some(pidx) = u.promoted {
                        f.push(("promoted", J::Bool(true)));
                        // what the promoted constant is built from (e.g. `&ErrorKind::InsufficientSize`)
                        if u.def.is_local() {
                            let pm = self.tcx.promoted_mir(u.def);
                            if let Some(pb) = pm.get(pidx) {
                                for bd in pb.basic_blocks.iter() {
                                    for st in &bd.statements {
                                        if let StatementKind::Assign(b) = &st.kind {
                                            if let Rvalue::Aggregate(k, ops) = &b.1 {
                                                if let AggregateKind::Adt(did, v, _, _, _) = &**k {
                                                    if ops.is_empty() {
                                                        let adt = self.tcx.adt_def(*did);
                                                        f.push(("promoted_agg", obj! {
                                                            "adt": J::s(self.path(*did)),
                                                            "vname": J::s(adt.variant(*v).name.to_string()),
                                                        }));
                                                    }
                                                }
                                            }
                                        }
                                    }
                                }
                            }
                        }
                    }
                } else {
                    let mut s = np(|| format!("{}", c.const_));
                    if s.len() > 120 {
                        s.truncate(120);
                    }
                    f.push(("s", J::s(s)));
                }
            }
        }
        J::Obj(f)
    }

    fn inst_kind(&self, inst: &Instance<'tcx>) -> &'static str {
        match inst.def {
            InstanceKind::Item(_) => "item",
            InstanceKind::Intrinsic(_) => "intrinsic",
            InstanceKind::Virtual(..) => "virtual",
            InstanceKind::VTableShim(_) => "vtable_shim",
            InstanceKind::ReifyShim(..) => "reify_shim",
            InstanceKind::FnPtrShim(..) => "fnptr_shim",
            InstanceKind::ClosureOnceShim { .. } => "closure_once_shim",
            InstanceKind::DropGlue(..) => "drop_glue",
            InstanceKind::CloneShim(..) => "clone_shim",
            _ => "other_shim",
        }
    }

    fn inst_id(&self, inst: &Instance<'tcx>) -> String {
        np(|| inst.to_string())
    }

    fn fnref(
        &self,
        did: DefId,
        args: GenericArgsRef<'tcx>,
        tenv: TypingEnv<'tcx>,
        callees: &mut Vec<(Instance<'tcx>, &'static str)>,
        why: &'static str,
    ) -> J {
        let tcx = self.tcx;
        let name = tcx.opt_item_name(did).map(|s| s.to_string()).unwrap_or_default();
        let unsafe_ = match tcx.def_kind(did) {
            DefKind::Fn | DefKind::AssocFn => tcx.fn_sig(did).skip_binder().safety().is_unsafe(),
            _ => false,
        };
        let trait_ = tcx.trait_of_assoc(did).map(|t| self.path(t));
        let mut res = J::Null;
        let can_resolve = matches!(
            tcx.def_kind(did),
            DefKind::Fn | DefKind::AssocFn | DefKind::Ctor(..) | DefKind::Closure
        );
        if can_resolve {
            if let Ok(Some(inst)) = Instance::try_resolve(tcx, tenv, did, args) {
                let rdid = inst.def_id();
                let self_ty = tcx
                    .impl_of_assoc(rdid)
                    .map(|i| self.tystr(tcx.type_of(i).instantiate_identity().skip_norm_wip()));
                res = obj! {
                    "id": J::s(self.inst_id(&inst)),
                    "def": J::s(self.path(rdid)),
                    "krate": J::s(self.krate(rdid)),
                    "ikind": J::s(self.inst_kind(&inst)),
                    "args": self.args_j(inst.args),
                    "impl_self": J::opt_s(self_ty),
                };
                callees.push((inst, why));
            }
        }
        obj! {
            "def": J::s(self.path(did)),
            "name": J::s(name),
            "krate": J::s(self.krate(did)),
            "args": self.args_j(args),
            "unsafe": J::Bool(unsafe_),
            "trait": J::opt_s(trait_),
            "res": res,
        }
    }

    fn rvalue(
        &self,
        rv: &Rvalue<'tcx>,
        body: &Body<'tcx>,
        tenv: TypingEnv<'tcx>,
        callees: &mut Vec<(Instance<'tcx>, &'static str)>,
    ) -> J {
        let tcx = self.tcx;
        match rv {
            Rvalue::Use(o, _) => obj! {"use": self.operand(o, tenv, callees)},
            Rvalue::Repeat(o, n) => obj! {"repeat": self.operand(o, tenv, callees), "n": J::s(np(|| n.to_string()))},
            Rvalue::Ref(_, bk, p) => obj! {"ref": self.place(p), "mut": J::Bool(matches!(bk, mir::BorrowKind::Mut{..}))},
            Rvalue::RawPtr(k, p) => obj! {"raw": self.place(p), "mut": J::Bool(matches!(k, mir::RawPtrKind::Mut))},
            Rvalue::Cast(k, o, ty) => {
                let ks = match k {
                    CastKind::PointerCoercion(pc, _) => format!("PointerCoercion({:?})", pc),
                    other => format!("{:?}", other),
                };
                obj! {"cast": J::s(ks), "a": self.operand(o, tenv, callees), "ty": J::s(self.tystr(*ty)),
                "from_ty": J::s(self.tystr(o.ty(body, tcx)))}
            }
            Rvalue::BinaryOp(op, ab) => {
                let (a, b) = &**ab;
                obj! {"bin": J::s(format!("{:?}", op)), "a": self.operand(a, tenv, callees), "b": self.operand(b, tenv, callees),
                "opty": J::s(self.tystr(a.ty(body, tcx)))}
            }
            Rvalue::UnaryOp(op, a) => obj! {"un": J::s(format!("{:?}", op)), "a": self.operand(a, tenv, callees)},
            Rvalue::Discriminant(p) => obj! {"discr": self.place(p)},
            Rvalue::Aggregate(k, ops) => {
                let kj = match &**k {
                    AggregateKind::Array(t) => obj! {"array": J::s(self.tystr(*t))},
                    AggregateKind::Tuple => J::s("tuple"),
                    AggregateKind::Adt(did, v, args, _, _) => {
                        let adt = tcx.adt_def(*did);
                        obj! {
                            "adt": J::s(self.path(*did)),
                            "variant": J::Int(v.as_usize() as i128),
                            "vname": J::s(adt.variant(*v).name.to_string()),
                            "args": self.args_j(args),
                        }
                    }
                    AggregateKind::Closure(did, args) => {
                        let inst = Instance::resolve_closure(tcx, *did, args, ty::ClosureKind::FnOnce);
                        let id = self.inst_id(&inst);
                        callees.push((inst, "closure"));
                        obj! {"closure": J::s(self.path(*did)), "id": J::s(id)}
                    }
                    AggregateKind::Coroutine(did, args) => {
                        let inst = Instance::new_raw(*did, args);
                        let id = self.inst_id(&inst);
                        callees.push((inst, "coroutine"));
                        obj! {"coroutine": J::s(self.path(*did)), "id": J::s(id)}
                    }
                    AggregateKind::CoroutineClosure(did, _) => obj! {"coroutine_closure": J::s(self.path(*did))},
                    AggregateKind::RawPtr(t, m) => obj! {"rawptr": J::s(self.tystr(*t)), "mut": J::Bool(m.is_mut())},
                };
                obj! {"agg": kj, "ops": J::Arr(ops.iter().map(|o| self.operand(o, tenv, callees)).collect())}
            }
            Rvalue::CopyForDeref(p) => obj! {"use": obj!{"c": self.place(p)}},
            Rvalue::ThreadLocalRef(d) => obj! {"other": J::s(format!("tls {}", self.path(*d)))},
            Rvalue::WrapUnsafeBinder(o, _) => obj! {"use": self.operand(o, tenv, callees)},
        }
    }

    fn terminator(
        &self,
        term: &mir::Terminator<'tcx>,
        body: &Body<'tcx>,
        tenv: TypingEnv<'tcx>,
        callees: &mut Vec<(Instance<'tcx>, &'static str)>,
    ) -> J {
        let tcx = self.tcx;
        let bbj = |b: mir::BasicBlock| J::Int(b.as_usize() as i128);
        let unw = |u: &UnwindAction| match u {
            UnwindAction::Cleanup(b) => J::Int(b.as_usize() as i128),
            _ => J::Null,
        };
        let sp = J::s(self.span(term.source_info.span));
        match &term.kind {
            TerminatorKind::Goto { target } => obj! {"goto": bbj(*target)},
            TerminatorKind::SwitchInt { discr, targets } => {
                let mut ts = Vec::new();
                for (v, b) in targets.iter() {
                    let vj = if v <= i128::MAX as u128 { J::Int(v as i128) } else { J::s(format!("{}", v)) };
                    ts.push(J::Arr(vec![vj, bbj(b)]));
                }
                obj! {
                    "switch": self.operand(discr, tenv, callees),
                    "ty": J::s(self.tystr(discr.ty(body, tcx))),
                    "targets": J::Arr(ts),
                    "otherwise": bbj(targets.otherwise()),
                    "sp": sp,
                }
            }
            TerminatorKind::UnwindResume => J::s("resume"),
            TerminatorKind::UnwindTerminate(_) => J::s("terminate"),
            TerminatorKind::Return => J::s("return"),
            TerminatorKind::Unreachable => J::s("unreachable"),
            TerminatorKind::Drop { place, target, unwind, .. } => {
                let ty = place.ty(body, tcx).ty;
                obj! {"drop": self.place(place), "ty": J::s(self.tystr(ty)), "target": bbj(*target), "unwind": unw(unwind)}
            }
            TerminatorKind::Call { func, args, destination, target, unwind, .. } => {
                let fty = func.ty(body, tcx);
                let fj = match fty.kind() {
                    ty::FnDef(did, gargs) => self.fnref(*did, gargs, tenv, callees, "call"),
                    _ => obj! {"indirect": J::s(self.tystr(fty)), "op": self.operand(func, tenv, callees)},
                };
                obj! {
                    "call": fj,
                    "ops": J::Arr(args.iter().map(|a| self.operand(&a.node, tenv, callees)).collect()),
                    "dest": self.place(destination),
                    "target": target.map(bbj).unwrap_or(J::Null),
                    "unwind": unw(unwind),
                    "sp": sp,
                }
            }
            TerminatorKind::TailCall { func, args, .. } => {
                let fty = func.ty(body, tcx);
                let fj = match fty.kind() {
                    ty::FnDef(did, gargs) => self.fnref(*did, gargs, tenv, callees, "call"),
                    _ => obj! {"indirect": J::s(self.tystr(fty))},
                };
                obj! {
                    "call": fj,
                    "ops": J::Arr(args.iter().map(|a| self.operand(&a.node, tenv, callees)).collect()),
                    "dest": J::Null, "target": J::Null, "unwind": J::Null, "tail": J::Bool(true), "sp": sp,
                }
            }
            TerminatorKind::Assert { cond, expected, msg, target, unwind } => {
                let (k, ops): (String, Vec<&Operand<'tcx>>) = match &**msg {
                    AssertKind::BoundsCheck { len, index } => ("BoundsCheck".into(), vec![len, index]),
                    AssertKind::Overflow(op, a, b) => (format!("Overflow({:?})", op), vec![a, b]),
                    AssertKind::OverflowNeg(a) => ("OverflowNeg".into(), vec![a]),
                    AssertKind::DivisionByZero(a) => ("DivisionByZero".into(), vec![a]),
                    AssertKind::RemainderByZero(a) => ("RemainderByZero".into(), vec![a]),
                    AssertKind::MisalignedPointerDereference { required, found } => {
                        ("MisalignedPointerDereference".into(), vec![required, found])
                    }
                    AssertKind::NullPointerDereference => ("NullPointerDereference".into(), vec![]),
                    AssertKind::InvalidEnumConstruction(a) => ("InvalidEnumConstruction".into(), vec![a]),
                    AssertKind::ResumedAfterReturn(_) => ("ResumedAfterReturn".into(), vec![]),
                    AssertKind::ResumedAfterPanic(_) => ("ResumedAfterPanic".into(), vec![]),
                    AssertKind::ResumedAfterDrop(_) => ("ResumedAfterDrop".into(), vec![]),
                };
                obj! {
                    "assert": obj!{
                        "cond": self.operand(cond, tenv, callees),
                        "expected": J::Bool(*expected),
                        "msg": J::s(k),
                        "ops": J::Arr(ops.into_iter().map(|o| self.operand(o, tenv, callees)).collect()),
                    },
                    "target": bbj(*target),
                    "unwind": unw(unwind),
                    "sp": sp,
                }
            }
            TerminatorKind::Yield { value, resume, drop, .. } => obj! {
                "yield": self.operand(value, tenv, callees),
                "resume": bbj(*resume),
                "drop": drop.map(bbj).unwrap_or(J::Null),
            },
            TerminatorKind::CoroutineDrop => J::s("coroutine_drop"),
            TerminatorKind::FalseEdge { real_target, .. } => obj! {"goto": bbj(*real_target)},
            TerminatorKind::FalseUnwind { real_target, .. } => obj! {"goto": bbj(*real_target)},
            TerminatorKind::InlineAsm { .. } => J::s("asm"),
        }
    }

    // ---------------------------------------------------------------- items

    fn items(&mut self) {
        let tcx = self.tcx;
        let defs: Vec<_> = tcx.hir_crate_items(()).definitions().collect();
        for ldid in defs {
            let did = ldid.to_def_id();
            match tcx.def_kind(did) {
                DefKind::Impl { of_trait } => {
                    let self_ty = tcx.type_of(did).instantiate_identity().skip_norm_wip();
                    let (tr, tref) = if of_trait {
                        let t = tcx.impl_trait_ref(did).instantiate_identity().skip_norm_wip();
                        (Some(self.path(t.def_id)), Some(np(|| t.to_string())))
                    } else {
                        (None, None)
                    };
                    let preds = tcx.predicates_of(did).instantiate_identity(tcx);
                    let pj: Vec<J> = preds
                        .predicates
                        .iter()
                        .map(|p| J::s(np(|| format!("{}", p.skip_norm_wip()))))
                        .collect();
                    let mut assoc = Vec::new();
                    for it in tcx.associated_items(did).in_definition_order() {
                        let k = match it.kind {
                            ty::AssocKind::Fn { .. } => "fn",
                            ty::AssocKind::Const { .. } => "const",
                            ty::AssocKind::Type { .. } => "type",
                        };
                        let tyv = if k == "type" {
                            Some(self.tystr(tcx.type_of(it.def_id).instantiate_identity().skip_norm_wip()))
                        } else {
                            None
                        };
                        assoc.push(obj! {
                            "name": J::s(it.name().to_string()),
                            "kind": J::s(k),
                            "ty": J::opt_s(tyv),
                        });
                    }
                    let unsafe_ = if of_trait { tcx.impl_trait_header(did).safety.is_unsafe() } else { false };
                    let j = obj! {
                        "kind": J::s("impl"),
                        "def": J::s(self.path(did)),
                        "krate": J::s(self.krate(did)),
                        "self": J::s(self.tystr(self_ty)),
                        "self_adt": J::opt_s(self_ty.ty_adt_def().map(|a| self.path(a.did()))),
                        "trait": J::opt_s(tr),
                        "trait_ref": J::opt_s(tref),
                        "predicates": J::Arr(pj),
                        "assoc": J::Arr(assoc),
                        "derived": J::Bool(tcx.is_automatically_derived(did)),
                        "unsafe": J::Bool(unsafe_),
                        "span": J::s(self.span(tcx.def_span(did))),
                        "from_expansion": J::Bool(tcx.def_span(did).from_expansion()),
                    };
                    self.emit(j);
                }
                DefKind::Struct | DefKind::Enum | DefKind::Union => {
                    let adt = tcx.adt_def(did);
                    let repr = adt.repr();
                    let mut vars = Vec::new();
                    let discrs: Vec<(VariantIdx, ty::util::Discr<'tcx>)> =
                        if adt.is_enum() { adt.discriminants(tcx).collect() } else { Vec::new() };
                    for (vi, v) in adt.variants().iter_enumerated() {
                        let mut fs = Vec::new();
                        for f in v.fields.iter() {
                            let fty = tcx.type_of(f.did).instantiate_identity().skip_norm_wip();
                            fs.push(obj! {
                                "name": J::s(f.name.to_string()),
                                "ty": J::s(self.tystr(fty)),
                                "vis": J::s(np(|| format!("{:?}", f.vis))),
                            });
                        }
                        let d = discrs.iter().find(|(i, _)| *i == vi).map(|(_, d)| d.val);
                        vars.push(obj! {
                            "name": J::s(v.name.to_string()),
                            "discr": d.map(|d| if d <= i128::MAX as u128 { J::Int(d as i128) } else { J::s(format!("{}", d)) }).unwrap_or(J::Null),
                            "fields": J::Arr(fs),
                        });
                    }
                    let generics = tcx.generics_of(did);
                    let j = obj! {
                        "kind": J::s("adt"),
                        "def": J::s(self.path(did)),
                        "krate": J::s(self.krate(did)),
                        "adt_kind": J::s(if adt.is_enum() {"enum"} else if adt.is_union() {"union"} else {"struct"}),
                        "vis": J::s(np(|| format!("{:?}", tcx.visibility(did)))),
                        "repr_c": J::Bool(repr.c()),
                        "repr_transparent": J::Bool(repr.transparent()),
                        "repr_int": J::opt_s(repr.int.map(|i| format!("{:?}", i))),
                        "repr_packed": J::Bool(repr.packed()),
                        "n_generics": J::Int(generics.count() as i128),
                        "variants": J::Arr(vars),
                        "span": J::s(self.span(tcx.def_span(did))),
                        "from_expansion": J::Bool(tcx.def_span(did).from_expansion()),
                    };
                    self.emit(j);
                }
                DefKind::Fn | DefKind::AssocFn => {
                    // signature + visibility of every fn (also those without bodies here)
                    let sig = tcx.fn_sig(did).skip_binder();
                    let j = obj! {
                        "kind": J::s("fn"),
                        "def": J::s(self.path(did)),
                        "krate": J::s(self.krate(did)),
                        "name": J::s(tcx.item_name(did).to_string()),
                        "vis": J::s(np(|| format!("{:?}", tcx.visibility(did)))),
                        "unsafe": J::Bool(sig.safety().is_unsafe()),
                        "sig": J::s(np(|| format!("{}", sig.skip_binder()))),
                        "parent": J::s(self.path(tcx.parent(did))),
                    };
                    self.emit(j);
                }
                _ => {}
            }
        }
    }

    // ---------------------------------------------------------------- type markers

    /// `fn __ty_<name>(_: &X)` : export constants and layouts of X.
    fn type_marker(&mut self, did: DefId) {
        let tcx = self.tcx;
        let sig = tcx.fn_sig(did).skip_binder().skip_binder();
        let inputs = sig.inputs();
        if inputs.is_empty() {
            return;
        }
        let mut ty = inputs[0];
        if let ty::Ref(_, inner, _) = ty.kind() {
            ty = *inner;
        }
        let ty = tcx.erase_and_anonymize_regions(ty);
        let name = tcx.item_name(did).to_string();
        self.emit(obj! {"kind": J::s("tymark"), "name": J::s(name), "ty": J::s(self.tystr(ty))});
        self.type_facts(ty, 0);
    }

    fn type_facts(&mut self, ty: Ty<'tcx>, depth: usize) {
        let tcx = self.tcx;
        let key = self.tystr(ty);
        if !self.seen_layout.insert(key.clone()) {
            return;
        }
        let tenv = TypingEnv::fully_monomorphized();
        // layout
        let mut children: Vec<Ty<'tcx>> = Vec::new();
        match tcx.layout_of(tenv.as_query_input(ty)) {
            Ok(lay) => {
                let l = lay.layout;
                let sized = lay.is_sized();
                let mut fields = Vec::new();
                let mut variants = Vec::new();
                let mut repr = J::Null;
                let mut adt_path = J::Null;
                if let ty::Adt(adt, args) = ty.kind() {
                    adt_path = J::s(self.path(adt.did()));
                    let r = adt.repr();
                    repr = obj! {"c": J::Bool(r.c()), "transparent": J::Bool(r.transparent()),
                    "int": J::opt_s(r.int.map(|i| format!("{:?}", i)))};
                    if adt.is_struct() {
                        let v = adt.non_enum_variant();
                        if let FieldsShape::Arbitrary { .. } = l.fields() {
                            for (i, f) in v.fields.iter_enumerated() {
                                let fty = tcx.normalize_erasing_regions(tenv, ty::Unnormalized::new_wip(f.ty(tcx, args)));
                                let off = l.fields().offset(i.as_usize()).bytes();
                                fields.push(obj! {
                                    "name": J::s(f.name.to_string()),
                                    "ty": J::s(self.tystr(fty)),
                                    "offset": J::Int(off as i128),
                                });
                                children.push(fty);
                            }
                        }
                    } else if adt.is_enum() {
                        let discrs: Vec<_> = adt.discriminants(tcx).collect();
                        for (vi, v) in adt.variants().iter_enumerated() {
                            let mut fs = Vec::new();
                            let vl = match l.variants() {
                                Variants::Multiple { variants, .. } => Some(&variants[vi]),
                                _ => None,
                            };
                            for (i, f) in v.fields.iter_enumerated() {
                                let fty = tcx.normalize_erasing_regions(tenv, ty::Unnormalized::new_wip(f.ty(tcx, args)));
                                let off = match vl {
                                    Some(vl) => J::Int(vl.fields.offset(i.as_usize()).bytes() as i128),
                                    None => match l.variants() {
                                        Variants::Single { index } if *index == vi => {
                                            J::Int(l.fields().offset(i.as_usize()).bytes() as i128)
                                        }
                                        _ => J::Null,
                                    },
                                };
                                fs.push(obj! {"name": J::s(f.name.to_string()), "ty": J::s(self.tystr(fty)), "offset": off});
                                children.push(fty);
                            }
                            let d = discrs.iter().find(|(i, _)| *i == vi).map(|(_, d)| d.val);
                            variants.push(obj! {
                                "name": J::s(v.name.to_string()),
                                "discr": d.map(|d| if d <= i128::MAX as u128 { J::Int(d as i128) } else { J::s(format!("{}", d)) }).unwrap_or(J::Null),
                                "fields": J::Arr(fs),
                                "size": vl.map(|vl| J::Int(vl.size.bytes() as i128)).unwrap_or(J::Null),
                            });
                        }
                    }
                } else if let ty::Array(et, _) = ty.kind() {
                    children.push(*et);
                } else if let ty::Tuple(ts) = ty.kind() {
                    for (i, t) in ts.iter().enumerate() {
                        fields.push(obj! {"name": J::s(format!("{}", i)), "ty": J::s(self.tystr(t)),
                        "offset": J::Int(l.fields().offset(i).bytes() as i128)});
                        children.push(t);
                    }
                }
                let tag = match l.variants() {
                    Variants::Multiple { tag, tag_field, .. } => obj! {
                        "size": J::Int(tag.size(&tcx).bytes() as i128),
                        "offset": J::Int(l.fields().offset(tag_field.as_usize()).bytes() as i128),
                    },
                    _ => J::Null,
                };
                let j = obj! {
                    "kind": J::s("layout"),
                    "ty": J::s(key.clone()),
                    "adt": adt_path,
                    "sized": J::Bool(sized),
                    "align": J::Int(l.align().abi.bytes() as i128),
                    "size": J::Int(l.size().bytes() as i128),
                    "uninhabited": J::Bool(l.is_uninhabited()),
                    "repr": repr,
                    "fields": J::Arr(fields),
                    "variants": J::Arr(variants),
                    "tag": tag,
                };
                self.emit(j);
            }
            Err(e) => {
                self.emit(obj! {"kind": J::s("layout_err"), "ty": J::s(key.clone()), "err": J::s(format!("{:?}", e))});
            }
        }
        // constants
        self.type_consts(ty);
        if depth < 6 {
            for c in children {
                self.type_facts(c, depth + 1);
            }
            // generic arguments that are types (element / length / item types)
            if let ty::Adt(_, args) = ty.kind() {
                for a in args.iter() {
                    if let Some(t) = a.as_type() {
                        if !t.is_unit() || true {
                            self.type_facts(t, depth + 1);
                        }
                    }
                }
            }
        }
    }

    fn find_trait(&self, path: &str) -> Option<DefId> {
        let tcx = self.tcx;
        for t in tcx.all_traits_including_private() {
            if self.path(t) == path {
                return Some(t);
            }
        }
        None
    }

    fn eval_assoc_const(&self, cdid: DefId, args: GenericArgsRef<'tcx>) -> Option<J> {
        let tcx = self.tcx;
        let tenv = TypingEnv::fully_monomorphized();
        let inst = match Instance::try_resolve(tcx, tenv, cdid, args) {
            Ok(Some(i)) => i,
            _ => return None,
        };
        let cty = tcx.type_of(inst.def_id());
        let cty = inst.instantiate_mir_and_normalize_erasing_regions(tcx, tenv, cty);
        let val = tcx.const_eval_instance(tenv, inst, DUMMY_SP).ok()?;
        match val {
            ConstValue::Scalar(s) => {
                let si = s.try_to_scalar_int().ok()?;
                let u = si.to_uint(si.size());
                Some(if u <= i128::MAX as u128 { J::Int(u as i128) } else { J::s(format!("{}", u)) })
            }
            ConstValue::Indirect { alloc_id, offset } => {
                // arrays of usize
                if let ty::Array(et, n) = cty.kind() {
                    if *et == tcx.types.usize {
                        let n = n.try_to_target_usize(tcx)? as usize;
                        let alloc = tcx.global_alloc(alloc_id).unwrap_memory();
                        let a = alloc.inner();
                        let start = offset.bytes() as usize;
                        let bytes = a.inspect_with_uninit_and_ptr_outside_interpreter(start..start + n * 8);
                        let mut v = Vec::new();
                        for i in 0..n {
                            let mut b = [0u8; 8];
                            b.copy_from_slice(&bytes[i * 8..i * 8 + 8]);
                            v.push(J::Int(u64::from_le_bytes(b) as i128));
                        }
                        return Some(J::Arr(v));
                    }
                }
                None
            }
            ConstValue::ZeroSized => Some(J::Arr(vec![])),
            _ => None,
        }
    }

    fn type_consts(&mut self, ty: Ty<'tcx>) {
        let tcx = self.tcx;
        let key = self.tystr(ty);
        if !self.seen_consts.insert(key.clone()) {
            return;
        }
        let mut out: Vec<(String, J)> = Vec::new();
        // trait constants
        let trait_consts: [(&str, &[&str]); 4] = [
            ("flatty_base::traits::FlatBase", &["ALIGN", "MIN_SIZE"]),
            ("flatty_base::traits::FlatSized", &["SIZE"]),
            ("flatty_containers::vec::DataOffset", &["DATA_OFFSET"]),
            ("flatty_containers::string::DataOffset", &["DATA_OFFSET"]),
        ];
        let tenv = TypingEnv::fully_monomorphized();
        for (tp, names) in trait_consts.iter() {
            let Some(tdid) = self.find_trait(tp) else { continue };
            let tg = tcx.generics_of(tdid);
            // build trait args: Self + (adt args if the trait has further params)
            let mut targs: Vec<ty::GenericArg<'tcx>> = vec![ty.into()];
            if tg.count() > 1 {
                if let ty::Adt(adt, aargs) = ty.kind() {
                    let p = self.path(adt.did());
                    let ok = (tp.contains("vec::") && p == "flatty_containers::vec::FlatVec")
                        || (tp.contains("string::") && p == "flatty_containers::string::FlatString");
                    if !ok {
                        continue;
                    }
                    for a in aargs.iter() {
                        targs.push(a);
                    }
                } else {
                    continue;
                }
            }
            if targs.len() != tg.count() {
                continue;
            }
            let targs = tcx.mk_args(&targs);
            // does the type implement the trait?
            let tref = ty::TraitRef::new_from_args(tcx, tdid, targs);
            if !self.implements(tref, tenv) {
                continue;
            }
            for n in names.iter() {
                let item = tcx
                    .associated_items(tdid)
                    .filter_by_name_unhygienic(Symbol::intern(n))
                    .next();
                if let Some(item) = item {
                    if *n == "SIZE" && !ty.is_sized(tcx, tenv) {
                        continue;
                    }
                    if let Some(v) = self.eval_assoc_const(item.def_id, targs) {
                        out.push((n.to_string(), v));
                    }
                }
            }
        }
        // inherent constants of ADTs
        if let ty::Adt(adt, aargs) = ty.kind() {
            for imp in tcx.inherent_impls(adt.did()).iter() {
                for it in tcx.associated_items(*imp).in_definition_order() {
                    if let ty::AssocKind::Const { .. } = it.kind {
                        // impl generics = adt generics in all cases we care about
                        let ig = tcx.generics_of(*imp);
                        if ig.count() != aargs.len() {
                            continue;
                        }
                        let ity = tcx.type_of(*imp).instantiate_identity().skip_norm_wip();
                        let identity = match ity.kind() {
                            ty::Adt(_, sargs) => sargs.iter().enumerate().all(|(i, a)| {
                                if let Some(t) = a.as_type() {
                                    matches!(t.kind(), ty::Param(p) if p.index as usize == i)
                                } else if let Some(c) = a.as_const() {
                                    matches!(c.kind(), ty::ConstKind::Param(p) if p.index as usize == i)
                                } else {
                                    true
                                }
                            }),
                            _ => false,
                        };
                        if !identity {
                            continue;
                        }
                        if let Some(v) = self.eval_assoc_const(it.def_id, aargs) {
                            // a user constant named like a trait constant (e.g. `ALIGN`) must not shadow the trait's value in the facts
                            let nm = it.name().to_string();
                            if out.iter().any(|(k, _)| *k == nm) {
                                out.push((format!("inherent:{}", nm), v));
                            } else {
                                out.push((nm, v));
                            }
                        }
                    }
                }
            }
        }
        // marker traits
        let mut marks = Vec::new();
        for tp in [
            "flatty_portable::Portable",
            "flatty_base::traits::Flat",
            "flatty_base::traits::FlatDefault",
            "core::marker::Copy",
            "core::default::Default",
        ] {
            if let Some(tdid) = self.find_trait(tp) {
                if tcx.generics_of(tdid).count() == 1 {
                    let tref = ty::TraitRef::new(tcx, tdid, [ty]);
                    if self.implements(tref, tenv) {
                        marks.push(J::s(tp));
                    }
                }
            }
        }
        let mut cj: Vec<J> = Vec::new();
        for (n, v) in out {
            cj.push(J::Arr(vec![J::s(n), v]));
        }
        self.emit(obj! {"kind": J::s("consts"), "ty": J::s(key), "consts": J::Arr(cj), "traits": J::Arr(marks)});
    }

    fn implements(&self, tref: ty::TraitRef<'tcx>, tenv: TypingEnv<'tcx>) -> bool {
        // resolve through codegen selection (monomorphic, post-analysis)
        let tcx = self.tcx;
        let tref = tcx.erase_and_anonymize_regions(tref);
        tcx.codegen_select_candidate(tenv.as_query_input(tref)).is_ok()
    }

    // ---------------------------------------------------------------- monomorphic walk

    fn root(&mut self, did: DefId) {
        let tcx = self.tcx;
        let body = tcx.optimized_mir(did);
        let tenv = TypingEnv::fully_monomorphized();
        let mut callees = Vec::new();
        // reuse the serializer to collect every fn item mentioned
        for (_bb, data) in body.basic_blocks.iter_enumerated() {
            for s in &data.statements {
                if let StatementKind::Assign(b) = &s.kind {
                    let _ = self.rvalue(&b.1, body, tenv, &mut callees);
                }
            }
            let _ = self.terminator(data.terminator(), body, tenv, &mut callees);
        }
        let mut ids = Vec::new();
        for (inst, _) in callees {
            ids.push(J::s(self.inst_id(&inst)));
            self.work.push_back(inst);
        }
        let name = tcx.item_name(did).to_string();
        self.emit(obj! {"kind": J::s("root"), "name": J::s(name), "insts": J::Arr(ids)});
    }

    fn walk(&mut self) {
        let tcx = self.tcx;
        let tenv = TypingEnv::fully_monomorphized();
        while let Some(inst) = self.work.pop_front() {
            let id = self.inst_id(&inst);
            if !self.seen_inst.insert(id.clone()) {
                continue;
            }
            let did = inst.def_id();
            let krate = self.krate(did);
            let ikind = self.inst_kind(&inst);
            let has_mir = match inst.def {
                InstanceKind::Item(d) => tcx.is_mir_available(d),
                InstanceKind::Intrinsic(_) | InstanceKind::Virtual(..) => false,
                _ => true,
            };
            if !has_mir {
                self.emit(obj! {
                    "kind": J::s("inst"), "id": J::s(id), "def": J::s(self.path(did)), "krate": J::s(krate),
                    "ikind": J::s(ikind), "has_mir": J::Bool(false), "args": self.args_j(inst.args),
                    "calls": J::Arr(vec![]),
                });
                continue;
            }
            let body = tcx.instance_mir(inst.def);
            let full = self.full_crates.iter().any(|c| *c == krate) && matches!(inst.def, InstanceKind::Item(_));
            let mut callees: Vec<(Instance<'tcx>, &'static str)> = Vec::new();
            if full {
                let mbody: Body<'tcx> =
                    inst.instantiate_mir_and_normalize_erasing_regions(tcx, tenv, EarlyBinder::bind(body.clone()));
                let j = self.body_fact(did, id.clone(), &mbody, tenv, true, inst.args, Some(&mut callees));
                self.emit(j);
            } else {
                // light: resolve callees only
                let mut calls = Vec::new();
                let mut diverging = 0;
                for (bb, data) in body.basic_blocks.iter_enumerated() {
                    for s in &data.statements {
                        if let StatementKind::Assign(b) = &s.kind {
                            self.light_rvalue(&inst, &b.1, tenv, &mut callees);
                        }
                    }
                    let term = data.terminator();
                    match &term.kind {
                        TerminatorKind::Call { func, args, target, .. } => {
                            let fty = func.ty(body, tcx);
                            let fty = inst.instantiate_mir_and_normalize_erasing_regions(tcx, tenv, EarlyBinder::bind(fty));
                            if target.is_none() {
                                diverging += 1;
                            }
                            if let ty::FnDef(cd, cargs) = fty.kind() {
                                if let Ok(Some(ci)) = Instance::try_resolve(tcx, tenv, *cd, cargs) {
                                    calls.push(J::Arr(vec![J::Int(bb.as_usize() as i128), J::s(self.inst_id(&ci)), J::Bool(target.is_none())]));
                                    callees.push((ci, "call"));
                                }
                            } else {
                                calls.push(J::Arr(vec![J::Int(bb.as_usize() as i128), J::s(format!("indirect:{}", self.tystr(fty))), J::Bool(target.is_none())]));
                            }
                            for a in args.iter() {
                                self.light_operand(&inst, &a.node, tenv, &mut callees);
                            }
                        }
                        TerminatorKind::TailCall { func, .. } => {
                            let fty = func.ty(body, tcx);
                            let fty = inst.instantiate_mir_and_normalize_erasing_regions(tcx, tenv, EarlyBinder::bind(fty));
                            if let ty::FnDef(cd, cargs) = fty.kind() {
                                if let Ok(Some(ci)) = Instance::try_resolve(tcx, tenv, *cd, cargs) {
                                    calls.push(J::Arr(vec![J::Int(bb.as_usize() as i128), J::s(self.inst_id(&ci)), J::Bool(false)]));
                                    callees.push((ci, "call"));
                                }
                            }
                        }
                        TerminatorKind::Drop { place, .. } => {
                            let pty = place.ty(body, tcx).ty;
                            let pty = inst.instantiate_mir_and_normalize_erasing_regions(tcx, tenv, EarlyBinder::bind(pty));
                            if pty.needs_drop(tcx, tenv) {
                                let di = Instance::resolve_drop_in_place(tcx, pty);
                                calls.push(J::Arr(vec![J::Int(bb.as_usize() as i128), J::s(self.inst_id(&di)), J::Bool(false)]));
                                callees.push((di, "drop"));
                            }
                        }
                        _ => {}
                    }
                }
                let extra: Vec<J> = callees
                    .iter()
                    .filter(|(_, w)| *w != "call" && *w != "drop")
                    .map(|(i, w)| J::Arr(vec![J::s(*w), J::s(self.inst_id(i))]))
                    .collect();
                self.emit(obj! {
                    "kind": J::s("inst"), "id": J::s(id), "def": J::s(self.path(did)), "krate": J::s(krate),
                    "ikind": J::s(ikind), "has_mir": J::Bool(true), "args": self.args_j(inst.args),
                    "calls": J::Arr(calls), "refs": J::Arr(extra), "diverging": J::Int(diverging),
                });
            }
            for (ci, _) in callees {
                let cid = self.inst_id(&ci);
                if !self.seen_inst.contains(&cid) {
                    self.work.push_back(ci);
                }
            }
        }
    }

    fn light_operand(
        &self,
        inst: &Instance<'tcx>,
        o: &Operand<'tcx>,
        tenv: TypingEnv<'tcx>,
        callees: &mut Vec<(Instance<'tcx>, &'static str)>,
    ) {
        let tcx = self.tcx;
        if let Operand::Constant(c) = o {
            let ty = c.const_.ty();
            let ty = inst.instantiate_mir_and_normalize_erasing_regions(tcx, tenv, EarlyBinder::bind(ty));
            match ty.kind() {
                ty::FnDef(cd, cargs) => {
                    if matches!(tcx.def_kind(*cd), DefKind::Fn | DefKind::AssocFn) {
                        if let Ok(Some(ci)) = Instance::try_resolve(tcx, tenv, *cd, cargs) {
                            callees.push((ci, "fnref"));
                        }
                    }
                }
                ty::Closure(cd, cargs) => {
                    let ci = Instance::resolve_closure(tcx, *cd, cargs, ty::ClosureKind::FnOnce);
                    callees.push((ci, "closure"));
                }
                _ => {}
            }
        }
    }

    fn light_rvalue(
        &self,
        inst: &Instance<'tcx>,
        rv: &Rvalue<'tcx>,
        tenv: TypingEnv<'tcx>,
        callees: &mut Vec<(Instance<'tcx>, &'static str)>,
    ) {
        let tcx = self.tcx;
        match rv {
            Rvalue::Use(o, _) | Rvalue::Cast(_, o, _) | Rvalue::UnaryOp(_, o) | Rvalue::Repeat(o, _) => {
                self.light_operand(inst, o, tenv, callees)
            }
            Rvalue::BinaryOp(_, ab) => {
                self.light_operand(inst, &ab.0, tenv, callees);
                self.light_operand(inst, &ab.1, tenv, callees);
            }
            Rvalue::Aggregate(k, ops) => {
                match &**k {
                    AggregateKind::Closure(cd, cargs) => {
                        let cargs = inst.instantiate_mir_and_normalize_erasing_regions(tcx, tenv, EarlyBinder::bind(*cargs));
                        let ci = Instance::resolve_closure(tcx, *cd, cargs, ty::ClosureKind::FnOnce);
                        callees.push((ci, "closure"));
                    }
                    AggregateKind::Coroutine(cd, cargs) => {
                        let cargs = inst.instantiate_mir_and_normalize_erasing_regions(tcx, tenv, EarlyBinder::bind(*cargs));
                        callees.push((Instance::new_raw(*cd, cargs), "coroutine"));
                    }
                    _ => {}
                }
                for o in ops.iter() {
                    self.light_operand(inst, o, tenv, callees);
                }
            }
            _ => {}
        }
    }
}

#[allow(dead_code)]
fn _unused(_: BinOp) {}
