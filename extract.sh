#!/bin/bash
# usage: extract.sh <corpus-crate-dir> <out-facts-dir>
# Runs `cargo +nightly check` of the corpus crate (which path-depends on /repo) through the
# flatty-facts driver in a fresh target directory; facts land in <out-facts-dir>.
set -u
CORPUS="$(realpath "$1")"; mkdir -p "$2"; OUT="$(realpath "$2")"
DRV=/verif/driver/target/release/flatty-facts
[ -x "$DRV" ] || { echo "driver not built: run setup" >&2; exit 2; }
mkdir -p "$OUT"; rm -f "$OUT"/*.jsonl "$OUT"/cargo.log
TGT=$(mktemp -d /verif/.work/tgt.XXXXXX)
cp /repo/Cargo.lock "$CORPUS/Cargo.lock"
SYSROOT=$(rustc +nightly --print sysroot)
( cd "$CORPUS" && env CARGO_NET_OFFLINE=true LD_LIBRARY_PATH="$SYSROOT/lib" \
  RUSTFLAGS="-Zmir-opt-level=0 -Zalways-encode-mir -Awarnings" \
  RUSTC_WRAPPER="$DRV" FLATTY_FACTS_OUT="$OUT" \
  FLATTY_FACTS_CRATES="${FLATTY_FACTS_CRATES:-flatty_base,flatty_containers,flatty_portable,flatty,flatty_io,flatty_corpus}" \
  FLATTY_FACTS_FULL="${FLATTY_FACTS_FULL:-flatty_base,flatty_containers,flatty_portable,flatty,flatty_io,flatty_corpus,stavec}" \
  CARGO_TARGET_DIR="$TGT" cargo +nightly check --offline -j16 ) > "$OUT/cargo.log" 2>&1
RC=$?
rm -rf "$TGT"
exit $RC
