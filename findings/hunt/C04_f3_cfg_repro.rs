//! C04 / f3: a field (or variant) that is removed by `#[cfg(..)]` in the current configuration is still counted by
//! everything `#[flat]` computes (type lists, AlignAs, LAST_FIELD_OFFSET, MIN_SIZE, tag values).
//!
//! Put this file into `tests/tests/` of the worktree and run
//!     cargo test -p flatty-tests --offline --test repro
//!
//! `cfg(any())` is always false; think of `#[cfg(feature = "extended")]` with the feature switched off.
#![allow(dead_code, unexpected_cfgs)]
use core::mem::{align_of, align_of_val, offset_of, size_of, size_of_val};
use flatty::{flat, portable::Bool, prelude::*, FlatVec};

#[repr(C, align(16))]
struct Mem([u8; 64]);

// ------------------------------------------------------------------ sized struct
#[flat]
struct SizedCfg {
    a: u8,
    #[cfg(any())]
    b: u64,
    c: Bool,
}

#[test]
fn sized_struct_with_disabled_field() {
    // the compiler: two bytes, `c` at offset 1; the library takes SIZE / ALIGN from the compiler
    assert_eq!((size_of::<SizedCfg>(), align_of::<SizedCfg>(), offset_of!(SizedCfg, c)), (2, 1, 1));
    assert_eq!((SizedCfg::SIZE, SizedCfg::ALIGN), (2, 1));

    let mem = Mem([0; 64]);
    // a valid image of exactly SIZE bytes must be accepted (it panics in `split_at` instead: the validator walks u8, u64, Bool)
    let ok = std::panic::catch_unwind(|| SizedCfg::from_bytes(&mem.0[..2]).is_ok());
    assert_eq!(ok.ok(), Some(true), "valid 2-byte image of SizedCfg is not accepted");

    // `c` = 7 is not a `Bool`: must be rejected even if there are spare bytes behind the value
    let mut mem = Mem([0; 64]);
    mem.0[1] = 7;
    assert!(SizedCfg::from_bytes(&mem.0[..32]).is_err(), "invalid Bool at the real offset of `c` accepted");
}

// ------------------------------------------------------------------ unsized struct
#[flat(sized = false)]
struct UnsizedCfg {
    a: u8,
    #[cfg(any())]
    b: u64,
    v: FlatVec<u8, u8>,
}

#[test]
fn unsized_struct_with_disabled_field() {
    let mut mem = Mem([0; 64]);
    let base = mem.0.as_ptr() as usize;
    let v = UnsizedCfg::from_mut_bytes(&mut mem.0[..32]).unwrap();
    // the compiler: { a: u8 @0, v @1 }, alignment 1
    assert_eq!(align_of_val(v), 1);
    let v_off = &v.v as *const _ as *const u8 as usize - base;
    assert_eq!(v_off, 1);
    // the library
    assert_eq!(UnsizedCfg::ALIGN, align_of_val(v), "ALIGN != align_of_val");
    assert_eq!(UnsizedCfg::LAST_FIELD_OFFSET, v_off, "LAST_FIELD_OFFSET != address of the last field");
    assert_eq!(UnsizedCfg::MIN_SIZE, 2, "MIN_SIZE != C layout of the declared (enabled) fields");
    assert!(size_of_val(v) <= 32);
}

// ------------------------------------------------------------------ sized enum
#[flat]
#[derive(Debug, PartialEq)]
enum EnumCfg {
    A,
    #[cfg(any())]
    B(u8),
    C(u8),
}

#[test]
fn enum_with_disabled_variant() {
    // the compiler numbers the enabled variants: A = 0, C = 1
    let c = EnumCfg::C(5);
    let tag_of_c = unsafe { *(&c as *const EnumCfg as *const u8) };
    assert_eq!(tag_of_c, 1);

    let mem = Mem([0; 64]);
    let mut img = [0u8; 2];
    img[0] = tag_of_c;
    img[1] = 5;
    let _ = mem;
    assert_eq!(EnumCfg::from_bytes(&img).ok(), Some(&EnumCfg::C(5)), "image of C(5) written by the compiler is not accepted");
    // 2 is not the tag of any enabled variant
    img[0] = 2;
    assert!(EnumCfg::from_bytes(&img).is_err(), "tag 2 (no such variant in this configuration) accepted");
}
