mod common;
use common::*;
use flatty::{flat, prelude::*, vec, FlatVec};

#[flat(sized = false)]
enum E {
    A,
    B(u8, u16, u16),
    C { x: u32, v: FlatVec<u8, u16> },
}

/// Escalation of the KNOWN one-pass initialiser issue (not a new finding): after a failed `assign_in_place`
/// the value is invalid (new tag over the old tail) and the next *safe* edit writes outside the slice (release builds;
/// debug builds stop at a `debug_assert` inside stavec).
#[test]
fn known_issue_escalation() {
    let mut p = Probe::new(0, 16, false, "known2".into());
    E::new_in_place(p.slice(), EInitB(1, 2, 40)).unwrap(); // bytes 8..10 (future `v.len`) = 40
    p.check("new", &[0..16]);
    {
        // safe code only from here on
        let e = E::from_mut_bytes(p.slice()).unwrap();
        let r = e.assign_in_place(EInitC {
            x: 5,
            v: vec::FromArray([0u8; 100]),
        });
        assert!(r.is_err());
        // the caller still holds `e`: tag is `C` now, `v.len` is the stale 40, capacity is 6
        if let EMut::C { v, .. } = e.as_mut() {
            let _ = v.push(0xAB);
        }
    }
    let bad = p.violations(&[0..16]);
    println!("bytes changed outside the slice: {:?}", bad);
}
