//! C15 / f2 (adjacent): the library's own buffer type cannot produce the zero-length buffer of the C15 quantifier
//! without undefined behaviour: `AlignedBytes::new(0, align)` calls `GlobalAlloc::alloc` with a zero-sized layout.
//!
//! Integration test for the `flatty-tests` package: copy to `tests/tests/c15_f2.rs` and run
//!     cargo test -p flatty-tests --offline --test c15_f2
//! (natively it fails through the checking allocator below; `cargo +nightly miri test ... --test c15_f2`
//!  reports "Undefined Behavior: creating allocation with size 0" at containers/src/bytes.rs:15.)
use flatty::{error::ErrorKind, prelude::*, AlignedBytes, FlatVec, FlatWrap};
use std::alloc::{GlobalAlloc, Layout, System};
use std::sync::atomic::{AtomicUsize, Ordering};

/// Forwards to the system allocator and counts requests that break the `GlobalAlloc::alloc` contract
/// ("undefined behavior can result if the caller does not ensure that `layout` has non-zero size").
struct Checking;
static ZERO_SIZED_ALLOCS: AtomicUsize = AtomicUsize::new(0);
unsafe impl GlobalAlloc for Checking {
    unsafe fn alloc(&self, layout: Layout) -> *mut u8 {
        if layout.size() == 0 {
            ZERO_SIZED_ALLOCS.fetch_add(1, Ordering::SeqCst);
        }
        System.alloc(layout)
    }
    unsafe fn dealloc(&self, ptr: *mut u8, layout: Layout) {
        System.dealloc(ptr, layout)
    }
}
#[global_allocator]
static ALLOC: Checking = Checking;

#[test]
fn emplacing_into_an_empty_aligned_buffer_is_refused_soundly() {
    let before = ZERO_SIZED_ALLOCS.load(Ordering::SeqCst);

    // "a buffer of any length ... from 0": the documented way to get an aligned buffer is AlignedBytes::new(len, align).
    let res = FlatWrap::<FlatVec<u8, u16>, _>::default_in_place(AlignedBytes::new(0, 2));
    // "a buffer too small for the type ... is refused with InsufficientSize"
    assert_eq!(res.err().expect("an empty buffer cannot hold a FlatVec").kind, ErrorKind::InsufficientSize);

    let mut empty = AlignedBytes::new(0, 4);
    assert_eq!(
        FlatVec::<u32, u32>::default_in_place(&mut empty).err().unwrap().kind,
        ErrorKind::InsufficientSize
    );
    drop(empty);

    assert_eq!(
        ZERO_SIZED_ALLOCS.load(Ordering::SeqCst),
        before,
        "AlignedBytes::new(0, _) called GlobalAlloc::alloc with a zero-sized layout, which is undefined behaviour"
    );
}
