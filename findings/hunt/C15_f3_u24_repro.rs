//! C15 / f3: length types whose size is not a multiple of the item alignment (user-defined, e.g. a 3-byte counter).
//!
//! `FlatVec::DATA_OFFSET` / `FlexVec::OFFSET_SIZE` are computed as `max(L::SIZE, T::ALIGN)`; the real offset of the
//! data behind the length is `ceil_mul(L::SIZE, T::ALIGN)`. The two agree for every built-in length type (all sizes
//! are powers of two) and differ for `L::SIZE = 3, T::ALIGN = 2` (3 instead of 4), `L::SIZE = 6, T::ALIGN = 4`, ...
//!
//! Integration test for the `flatty-tests` package: copy to `tests/tests/c15_f3.rs`, add
//!     [dev-dependencies]
//!     num-traits = { version = "0.2", default-features = false }
//! to `tests/Cargo.toml` (the crate is already in Cargo.lock and in the offline cache: `flatty::vec::Length` is a
//! blanket trait over the num-traits traits, so a custom length type cannot be written without naming them), and run
//!     cargo test -p flatty-tests --offline --test c15_f3
use flatty::{error::ErrorKind, flex, prelude::*, vec, FlatVec, FlexVec};
use num_traits::{Bounded, FromPrimitive, Num, One, ToPrimitive, Unsigned, Zero};
use std::ops::*;

#[repr(C)]
#[derive(Clone, Copy, PartialEq, Eq, Debug)]
struct U24([u8; 3]);
impl U24 {
    fn get(self) -> u32 {
        u32::from_le_bytes([self.0[0], self.0[1], self.0[2], 0])
    }
    fn new(x: u32) -> Self {
        let b = x.to_le_bytes();
        U24([b[0], b[1], b[2]])
    }
}
unsafe impl FlatValidate for U24 {
    unsafe fn validate_unchecked(_: &[u8]) -> Result<(), flatty::Error> {
        Ok(())
    }
}
unsafe impl Flat for U24 {}
impl PartialOrd for U24 {
    fn partial_cmp(&self, o: &Self) -> Option<std::cmp::Ordering> {
        Some(self.cmp(o))
    }
}
impl Ord for U24 {
    fn cmp(&self, o: &Self) -> std::cmp::Ordering {
        self.get().cmp(&o.get())
    }
}
macro_rules! op {
    ($tr:ident, $f:ident, $tra:ident, $fa:ident, $op:tt) => {
        impl $tr for U24 { type Output = U24; fn $f(self, r: U24) -> U24 { U24::new(self.get() $op r.get()) } }
        impl $tra for U24 { fn $fa(&mut self, r: U24) { *self = U24::new(self.get() $op r.get()) } }
    };
}
op!(Add, add, AddAssign, add_assign, +);
op!(Sub, sub, SubAssign, sub_assign, -);
op!(Mul, mul, MulAssign, mul_assign, *);
op!(Div, div, DivAssign, div_assign, /);
op!(Rem, rem, RemAssign, rem_assign, %);
impl Zero for U24 {
    fn zero() -> Self { U24::new(0) }
    fn is_zero(&self) -> bool { self.get() == 0 }
}
impl One for U24 {
    fn one() -> Self { U24::new(1) }
}
impl Num for U24 {
    type FromStrRadixErr = std::num::ParseIntError;
    fn from_str_radix(s: &str, r: u32) -> Result<Self, Self::FromStrRadixErr> { u32::from_str_radix(s, r).map(U24::new) }
}
impl Unsigned for U24 {}
impl Bounded for U24 {
    fn min_value() -> Self { U24::new(0) }
    fn max_value() -> Self { U24::new(0xFF_FFFF) }
}
impl ToPrimitive for U24 {
    fn to_u64(&self) -> Option<u64> { Some(self.get() as u64) }
    fn to_i64(&self) -> Option<i64> { Some(self.get() as i64) }
}
impl FromPrimitive for U24 {
    fn from_u64(n: u64) -> Option<Self> { if n <= 0xFF_FFFF { Some(U24::new(n as u32)) } else { None } }
    fn from_i64(n: i64) -> Option<Self> { if (0..=0xFF_FFFF).contains(&n) { Some(U24::new(n as u32)) } else { None } }
}

#[repr(C, align(16))]
struct Arena([u8; 64]);

/// FlatVec<u16, U24>: `#[repr(C)] { len: U24, data: [u16] }` keeps its data at offset 4, the library assumes 3.
#[test]
fn flat_vec_with_three_byte_length_stays_inside_its_buffer() {
    type V = FlatVec<u16, U24>;
    for len in 0..16usize {
        let mut a = Arena([0xEE; 64]);
        let res = V::new_in_place(&mut a.0[..len], vec::FromArray([0x1111u16]))
            .map(|v| (v.len(), v.capacity(), std::mem::size_of_val(v), v.as_slice().to_vec()));
        // canary: nothing behind the buffer may change
        assert!(
            a.0[len..].iter().all(|b| *b == 0xEE),
            "len={len}: new_in_place returned {:?} and wrote past the end of the {len}-byte buffer",
            res
        );
        match res {
            // "an aligned buffer that can hold the content is accepted and then satisfies C03"
            Ok((n, _cap, view_size, items)) => {
                assert_eq!((n, &items[..]), (1, &[0x1111u16][..]));
                assert!(view_size <= len, "len={len}: the returned reference covers {view_size} bytes");
            }
            // "a buffer too small for the type or for the requested content is refused with InsufficientSize"
            Err(e) => assert_eq!(e.kind, ErrorKind::InsufficientSize, "len={len}"),
        }
    }
}

/// FlexVec<u16, U24>: the payload is put 3 bytes behind the (2-aligned) slot, i.e. at an odd address.
#[test]
fn flex_vec_with_three_byte_length_accepts_an_aligned_buffer() {
    type V = FlexVec<u16, U24>;
    let mut accepted = 0;
    for len in 0..24usize {
        let mut a = Arena([0xEE; 64]);
        let res = V::new_in_place(&mut a.0[..len], flex::FromIterator::new([0x1111u16, 0x2222]))
            .map(|v| v.iter().copied().collect::<Vec<_>>());
        assert!(a.0[len..].iter().all(|b| *b == 0xEE), "len={len}: write past the end of the buffer");
        match res {
            Ok(v) => {
                assert_eq!(v, [0x1111, 0x2222]);
                accepted += 1;
            }
            // The buffer IS aligned (16): "a misaligned buffer is refused with BadAlign" must not fire here.
            Err(e) => assert_eq!(e.kind, ErrorKind::InsufficientSize, "len={len}: aligned buffer refused with {:?}", e.kind),
        }
    }
    assert!(accepted > 0, "no buffer length up to 23 bytes was accepted for two u16 items");
}
