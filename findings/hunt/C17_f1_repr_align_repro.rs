// Integration test for the `flatty-tests` package: copy to tests/tests/c17_f1_repr_align.rs and run
//     cargo test -p flatty-tests --offline --test c17_f1_repr_align
//
// Property C17: "Every type declared with #[flat(portable = true)], and every container of portable
// items with a portable length type, has alignment 1 and no padding anywhere ... It can be mapped at
// any address and its bytes equal the reference serialisation of the same content."
//
// `#[flat]` re-emits the user's item verbatim behind its own `#[repr(C)]`, so a `#[repr(align(N))]`
// written next to `#[flat(portable = true)]` is accepted. No `unsafe` is needed to get
//   * a `Portable` sized type with alignment N and N-1 padding bytes,
//   * `FlatVec` / `FlexVec` of it with alignment N and padding after the length / offset slot,
//   * an unsized `Portable` struct whose `FlatBase::ALIGN` is 1 while the Rust type has alignment N,
//     so `from_bytes` / `new_in_place` hand out a misaligned reference (UB, miri reports it).
#![allow(dead_code)]

use core::mem::{align_of, align_of_val, size_of};
use flatty::{flat, flat_vec, portable::le, prelude::*, FlatVec, FlexVec, Portable};

#[flat(portable = true, default = true)]
#[repr(align(4))]
#[derive(Clone, Copy, Debug, PartialEq)]
pub struct Over {
    a: u8,
}

#[flat(portable = true)]
#[repr(align(8))]
pub struct OverZst;

#[flat(portable = true)]
pub struct Outer {
    x: u8,
    z: OverZst, // zero-sized, over-aligned, `Portable` field
    y: le::U16,
}

#[flat(sized = false, portable = true, default = true)]
#[repr(align(4))]
pub struct OverUnsized {
    a: u8,
    b: FlatVec<u8, u8>,
}

fn assert_portable<T: Portable + ?Sized>() {}

/// "Every type declared with #[flat(portable = true)] ... has alignment 1 and no padding anywhere".
#[test]
fn sized_portable_type_has_alignment_one_and_no_padding() {
    assert_portable::<Over>();
    assert_portable::<Outer>();
    assert_eq!(<Over as FlatBase>::ALIGN, 1, "ALIGN of a portable struct");
    assert_eq!(size_of::<Over>(), 1, "a portable struct of one u8 is one byte");
    assert_eq!(<Outer as FlatBase>::ALIGN, 1, "ALIGN of a portable struct with a zero-sized portable field");
    assert_eq!(size_of::<Outer>(), 3, "x, (nothing), y: three bytes");
}

/// "... and every container of portable items with a portable length type, has alignment 1 and no
/// padding anywhere, so its encoding is ... the concatenation ... of ... length and elements".
#[test]
fn container_of_portable_items_is_length_then_elements() {
    assert_portable::<FlatVec<Over, u8>>();
    assert_portable::<FlexVec<OverZst, u8>>();
    assert_eq!(<FlatVec<Over, u8> as FlatBase>::ALIGN, 1);
    assert_eq!(<FlexVec<OverZst, u8> as FlatBase>::ALIGN, 1);

    // Map at an address that is 1 mod 8: a portable value "can be mapped at any address".
    let mut mem = [0u8; 64];
    let off = 8 - (mem.as_ptr() as usize % 8) + 1;
    let vec = FlatVec::<Over, u8>::new_in_place(&mut mem[off..(off + 16)], flat_vec![Over { a: 0x11 }, Over { a: 0x22 }])
        .expect("a portable value can be placed at any address");
    // reference serialisation: length (u8), then the elements (one u8 each)
    assert_eq!(vec.size(), 3);
    assert_eq!(&vec.as_bytes()[..3], &[2, 0x11, 0x22]);
}

/// "It can be mapped at any address": the reference that `from_bytes` returns must be a valid one.
#[test]
fn unsized_portable_type_can_be_mapped_at_any_address() {
    assert_portable::<OverUnsized>();
    assert_eq!(<OverUnsized as FlatBase>::ALIGN, 1); // holds: computed from the fields only

    let mut mem = [0u8; 32];
    let off = 4 - (mem.as_ptr() as usize % 4) + 1; // address is 1 mod 4
    let bytes = &mem[off..(off + 8)];
    // [a = 0][len = 0]....: a valid image of the all-default value
    let v = OverUnsized::from_bytes(bytes).expect("ALIGN is 1, so any address is accepted");
    let addr = v as *const OverUnsized as *const u8 as usize;
    // The library accepted the address, so the reference it made must be aligned for its type.
    assert_eq!(align_of_val(v), 1, "alignment of the value the library mapped");
    assert_eq!(addr % align_of_val(v), 0, "from_bytes returned a misaligned reference");

    let _ = align_of::<Over>();
    let _ = &mut mem;
}
