// Integration test for the `flatty-tests` package: copy to tests/tests/c17_f2_sealed_slack.rs and run
//     cargo test -p flatty-tests --offline --test c17_f2_sealed_slack
//
// Property C17: a container of portable items with a portable length type has "no padding anywhere,
// so its encoding is a pure function of its content: the concatenation, in declaration order, of tag,
// fields, length and elements".
//
// A FlexVec item that is no longer the last one has a fixed extent (its offset slot). Shrinking such an
// item in place through `iter_mut()` (a safe, documented use: see `push_modify` in containers/src/flex.rs)
// leaves the stale tail of the old content *inside* `as_bytes()[..size()]`: the image and even `size()`
// of the vector now depend on the history, not on the content. (This is not the known "open last item"
// vs. "sealed + terminator" pair: both vectors below are in the same, "open last item", form.)
#![allow(dead_code)]

use flatty::{flat, flat_vec, portable::le, prelude::*, FlatVec, FlexVec};

type V = FlexVec<FlatVec<u8, u8>, u8>;

fn content(v: &V) -> Vec<Vec<u8>> {
    v.iter().map(|x| x.as_slice().to_vec()).collect()
}

#[test]
fn shrinking_a_sealed_item_leaves_padding_in_the_image() {
    // history 1: push [1, 2, 3], push [9], pop from the first item
    let mut mem_a = [0u8; 16];
    let a = V::default_in_place(&mut mem_a).unwrap();
    a.push(flat_vec![1u8, 2, 3]).unwrap();
    a.push(flat_vec![9u8]).unwrap();
    assert_eq!(a.iter_mut().next().unwrap().pop(), Some(3));

    // history 2: push [1, 2], push [9]
    let mut mem_b = [0u8; 16];
    let b = V::default_in_place(&mut mem_b).unwrap();
    b.push(flat_vec![1u8, 2]).unwrap();
    b.push(flat_vec![9u8]).unwrap();

    // same content ...
    assert_eq!(content(a), vec![vec![1, 2], vec![9]]);
    assert_eq!(content(a), content(b));

    // ... and the reference serialisation of that content: [extent][len][1, 2] [MAX][len][9]
    let reference = [4u8, 2, 1, 2, 0xFF, 1, 9];
    assert_eq!(&b.as_bytes()[..b.size()], &reference[..]);

    // "its encoding is a pure function of its content"
    assert_eq!(a.size(), b.size(), "size() of two vectors with the same content");
    assert_eq!(&a.as_bytes()[..a.size()], &reference[..], "image of the vector whose first item was shrunk");
}

#[flat(sized = false, portable = true, default = true)]
pub enum Msg {
    #[default]
    Nop,
    Num(le::U32),
}

#[test]
fn reassigning_a_sealed_item_leaves_padding_in_the_image() {
    type W = FlexVec<Msg, le::U16>;

    let mut mem_a = [0u8; 16];
    let a = W::default_in_place(&mut mem_a).unwrap();
    a.push(MsgInitNum(le::U32::from(0xAABBCCDD))).unwrap();
    a.push(MsgInitNop).unwrap();
    a.iter_mut().next().unwrap().assign_in_place(MsgInitNop).unwrap();

    let mut mem_b = [0u8; 16];
    let b = W::default_in_place(&mut mem_b).unwrap();
    b.push(MsgInitNop).unwrap();
    b.push(MsgInitNop).unwrap();

    // content: [Nop, Nop]; reference: [extent = 3][tag 0] [MAX][tag 0]
    let reference = [3u8, 0, 0, 0xFF, 0xFF, 0];
    assert_eq!(&b.as_bytes()[..b.size()], &reference[..]);
    assert_eq!(a.size(), b.size(), "size() of two vectors with the same content");
    assert_eq!(&a.as_bytes()[..a.size()], &reference[..]);
}
