//! C05 / f1: the generated `size()` of an unsized struct calls `self.<last>.size()` with method
//! syntax, so an inherent `size` method of the last field's type hijacks it.
//!
//! Integration test for the `flatty-tests` package: copy to `tests/tests/c05_f1.rs` and run
//! `cargo test -p flatty-tests --offline --test c05_f1`.

use flatty::{flat, flat_vec, prelude::*, AlignedBytes, FlatVec};

/// A user message part. `size` is a very natural name for "number of elements".
#[flat(sized = false)]
pub struct Payload {
    pub kind: u8,
    pub items: FlatVec<u8, u8>,
}

impl Payload {
    /// Number of items carried (user API, has nothing to do with `FlatBase::size`).
    pub fn size(&self) -> usize {
        self.items.len()
    }
}

#[flat(sized = false)]
pub struct Message {
    pub id: u32,
    pub payload: Payload,
}

#[flat(sized = false)]
pub enum Packet {
    Empty,
    Data(u32, Payload),
}

#[test]
fn struct_size_is_the_extent_of_its_content() {
    let mut mem = AlignedBytes::new(32, 4);
    let msg = Message::new_in_place(
        &mut mem,
        MessageInit {
            id: 7,
            payload: PayloadInit {
                kind: 1,
                items: flat_vec![10u8, 11, 12, 13, 14, 15, 16],
            },
        },
    )
    .unwrap();

    // reference extent: id (4) + kind (1) + len (1) + 7 items = 13, rounded up to ALIGN = 4
    let inner_extent = FlatBase::size(&msg.payload);
    assert_eq!(inner_extent, 9);
    let reference = 16;

    // the same payload in an enum variant is measured correctly (generic code, no method syntax) ...
    let mut mem2 = AlignedBytes::new(36, 4);
    let pkt = Packet::new_in_place(
        &mut mem2,
        PacketInitData(
            7,
            PayloadInit {
                kind: 1,
                items: flat_vec![10u8, 11, 12, 13, 14, 15, 16],
            },
        ),
    )
    .unwrap();
    assert_eq!(FlatBase::size(pkt), 4 + reference);

    // ... but the struct reports LAST_FIELD_OFFSET + Payload::size() (the inherent one) = 4 + 7 = 11 -> 12
    let size = FlatBase::size(msg);
    assert_eq!(size, reference, "size() must be the extent of the content");
}

#[test]
fn truncating_to_size_loses_nothing() {
    let mut mem = AlignedBytes::new(32, 4);
    let msg = Message::new_in_place(
        &mut mem,
        MessageInit {
            id: 7,
            payload: PayloadInit {
                kind: 1,
                items: flat_vec![1u8, 2, 3, 4, 5, 6, 7],
            },
        },
    )
    .unwrap();
    let size = FlatBase::size(msg);
    let bytes = msg.as_bytes();
    let again = Message::from_bytes(&bytes[..size]).expect("the first size() bytes must map again");
    assert_eq!(again.payload.items.as_slice(), &[1, 2, 3, 4, 5, 6, 7]);
}
