//! C05 / f2: the generated code reads the alignment through `Self::ALIGN`, so an inherent associated
//! constant called `ALIGN` on the user's type replaces `FlatBase::ALIGN` in `size()`, `ptr_from_bytes`,
//! `ptr_to_bytes` and the validator (but not in `MIN_SIZE` and the initialiser, which spell it
//! `<Self as FlatBase>::ALIGN`).
//!
//! Integration test for the `flatty-tests` package: copy to `tests/tests/c05_f2.rs` and run
//! `cargo test -p flatty-tests --offline --test c05_f2`.

use core::mem::align_of_val;
use flatty::{flat, flat_vec, prelude::*, AlignedBytes, FlatVec};

#[flat(sized = false)]
pub struct Msg {
    pub id: u8,
    pub items: FlatVec<u8, u8>,
}

impl Msg {
    /// Alignment of messages on the user's bus - ordinary safe user code.
    pub const ALIGN: usize = 4;
}

#[test]
fn size_is_rounded_to_the_alignment_of_the_type() {
    // the type's alignment is 1
    assert_eq!(<Msg as FlatBase>::ALIGN, 1);

    let mut mem = AlignedBytes::new(16, 4);
    let msg = Msg::new_in_place(
        &mut mem,
        MsgInit {
            id: 1,
            items: flat_vec![1u8, 2, 3],
        },
    )
    .unwrap();
    assert_eq!(align_of_val(msg), 1);
    // reference extent: id (1) + len (1) + 3 items = 5, rounded up to the type's alignment (1) = 5
    assert_eq!(FlatBase::size(msg), 5, "size() must be the extent of the content rounded to FlatBase::ALIGN");
}

#[test]
fn size_stays_within_the_bytes_mapped() {
    // 7 bytes are admissible (MIN_SIZE is 2) and enough for the content (5 bytes)
    assert_eq!(<Msg as FlatBase>::MIN_SIZE, 2);
    let mut mem = AlignedBytes::new(7, 4);
    let msg = Msg::new_in_place(
        &mut mem,
        MsgInit {
            id: 1,
            items: flat_vec![1u8, 2, 3],
        },
    )
    .unwrap();
    let size = FlatBase::size(msg);
    assert!(size <= 7, "size() = {} exceeds the 7 bytes the value was mapped from", size);
    // (not reached) the view is inconsistent as well: `msg.items.as_slice()` is out of bounds of the view
    assert!(msg.items.len() <= msg.items.capacity(), "len {} > capacity {}", msg.items.len(), msg.items.capacity());
    assert_eq!(msg.items.as_slice(), &[1, 2, 3]);
}
