//! C05 model-based / differential harness: size() is the exact extent.
#![allow(dead_code, clippy::all, non_camel_case_types)]

use core::mem::{align_of_val, size_of};
use flatty::{
    flat, flex,
    portable::{be, le, Bool},
    prelude::*,
    string, vec,
    vec::Length,
    AlignedBytes, Emplacer, Error, FlatString, FlatVec, FlexVec,
};

// ---------------------------------------------------------------- rng

pub struct Rng {
    s: u64,
    pub max_items: usize,
    pub grow: bool,
}
impl Rng {
    pub fn new(seed: u64) -> Self {
        let mut r = Rng {
            s: seed.wrapping_mul(0x9E37_79B9_7F4A_7C15) ^ 0xD1B5_4A32_D192_ED03,
            max_items: 4,
            grow: false,
        };
        if r.s == 0 {
            r.s = 1;
        }
        for _ in 0..4 {
            r.next();
        }
        r
    }
    pub fn next(&mut self) -> u64 {
        let mut x = self.s;
        x ^= x >> 12;
        x ^= x << 25;
        x ^= x >> 27;
        self.s = x;
        x.wrapping_mul(0x2545_F491_4F6C_DD1D)
    }
    pub fn below(&mut self, n: usize) -> usize {
        if n == 0 {
            0
        } else {
            ((self.next() >> 33) as usize) % n
        }
    }
    pub fn count(&mut self) -> usize {
        let m = self.max_items;
        self.below(m + 1)
    }
}

fn ceil(x: usize, m: usize) -> usize {
    (x + m - 1) / m * m
}
fn off<A: ?Sized, B: ?Sized>(base: &A, field: &B) -> usize {
    (field as *const B as *const u8 as usize) - (base as *const A as *const u8 as usize)
}

// ---------------------------------------------------------------- model trait

pub trait Model: Flat {
    type Desc: Clone + core::fmt::Debug;
    fn random_desc(rng: &mut Rng) -> Self::Desc;
    unsafe fn emplace_desc<'a>(d: &Self::Desc, bytes: &'a mut [u8]) -> Result<&'a mut Self, Error>;
    fn content(&self) -> String;
    /// End of the used data relative to the start of `self` (not rounded).
    fn used_end(&self) -> usize;
    /// One random in-place mutation. Returns false when a fallible operation reported an error.
    fn mutate(&mut self, rng: &mut Rng) -> bool;
}

pub struct DE<'d, T: Model + ?Sized>(pub &'d T::Desc);
unsafe impl<'d, T: Model + ?Sized> Emplacer<T> for DE<'d, T> {
    unsafe fn emplace_unchecked(self, bytes: &mut [u8]) -> Result<&mut T, Error> {
        T::emplace_desc(self.0, bytes)
    }
}

pub trait Rand: Sized {
    fn rand(rng: &mut Rng) -> Self;
}

macro_rules! rand_int {
    ($($t:ty),*) => {$(
        impl Rand for $t {
            fn rand(rng: &mut Rng) -> Self {
                match rng.below(4) { 0 => 0 as $t, 1 => <$t>::MAX, _ => rng.next() as $t }
            }
        }
    )*};
}
rand_int!(u8, u16, u32, u64, u128, i8, i16, i32, i64, usize);
impl Rand for () {
    fn rand(_: &mut Rng) -> Self {}
}
impl Rand for Bool {
    fn rand(rng: &mut Rng) -> Self {
        (rng.below(2) == 1).into()
    }
}
macro_rules! rand_portable {
    ($($t:ty : $n:ty),*) => {$(
        impl Rand for $t { fn rand(rng: &mut Rng) -> Self { <$t>::from(<$n as Rand>::rand(rng)) } }
    )*};
}
rand_portable!(le::U16: u16, le::U32: u32, le::U64: u64, be::U16: u16, be::U32: u32, le::I32: i32);
impl<T: Rand, const N: usize> Rand for [T; N] {
    fn rand(rng: &mut Rng) -> Self {
        core::array::from_fn(|_| T::rand(rng))
    }
}

macro_rules! model_sized {
    ($($t:ty),* $(,)?) => {$(
        impl Model for $t {
            type Desc = $t;
            fn random_desc(rng: &mut Rng) -> $t { <$t as Rand>::rand(rng) }
            unsafe fn emplace_desc<'a>(d: &$t, bytes: &'a mut [u8]) -> Result<&'a mut Self, Error> {
                <$t as Emplacer<$t>>::emplace_unchecked(d.clone(), bytes)
            }
            fn content(&self) -> String { format!("{:?}", self) }
            fn used_end(&self) -> usize { size_of::<$t>() }
            fn mutate(&mut self, rng: &mut Rng) -> bool { *self = <$t as Rand>::rand(rng); true }
        }
    )*};
}
model_sized!(u8, u16, u32, u64, u128, i8, i16, i32, i64, usize, (), Bool);
model_sized!(le::U16, le::U32, le::U64, be::U16, be::U32, le::I32);
model_sized!([u8; 3], [u64; 0], [u16; 2], [u8; 0], [u8; 5]);

// sized user types
#[flat]
#[derive(Clone, Copy, Debug, PartialEq)]
pub struct SS {
    a: u8,
    b: u32,
}
impl Rand for SS {
    fn rand(rng: &mut Rng) -> Self {
        SS {
            a: Rand::rand(rng),
            b: Rand::rand(rng),
        }
    }
}
#[flat]
#[derive(Clone, Copy, Debug, PartialEq)]
pub enum SE {
    A,
    B(u8),
    C { x: u32 },
}
impl Rand for SE {
    fn rand(rng: &mut Rng) -> Self {
        match rng.below(3) {
            0 => SE::A,
            1 => SE::B(Rand::rand(rng)),
            _ => SE::C { x: Rand::rand(rng) },
        }
    }
}
#[flat(tag_type = "u16")]
#[derive(Clone, Copy, Debug, PartialEq)]
pub enum CL {
    X = 3,
    Y = 700,
}
impl Rand for CL {
    fn rand(rng: &mut Rng) -> Self {
        if rng.below(2) == 0 {
            CL::X
        } else {
            CL::Y
        }
    }
}
model_sized!(SS, SE, CL);

// ---------------------------------------------------------------- FlatVec

impl<T, L> Model for FlatVec<T, L>
where
    T: Model<Desc = T> + Sized + Clone + Rand + core::fmt::Debug,
    L: Flat + Length,
{
    type Desc = Vec<T>;
    fn random_desc(rng: &mut Rng) -> Vec<T> {
        let n = rng.count();
        (0..n).map(|_| T::rand(rng)).collect()
    }
    unsafe fn emplace_desc<'a>(d: &Vec<T>, bytes: &'a mut [u8]) -> Result<&'a mut Self, Error> {
        <vec::FromIterator<T, _> as Emplacer<FlatVec<T, L>>>::emplace_unchecked(vec::FromIterator(d.iter().cloned()), bytes)
    }
    fn content(&self) -> String {
        format!("[{}]", self.as_slice().iter().map(|x| x.content()).collect::<Vec<_>>().join(","))
    }
    fn used_end(&self) -> usize {
        let base = self as *const Self as *const u8 as usize;
        let data = self.data().as_ptr() as usize;
        core::cmp::max(size_of::<L>(), data - base + self.len() * size_of::<T>())
    }
    fn mutate(&mut self, rng: &mut Rng) -> bool {
        if rng.grow && rng.below(6) != 0 {
            return self.push(T::rand(rng)).is_ok();
        }
        match rng.below(13) {
            0 => self.push(T::rand(rng)).is_ok(),
            1 => {
                self.pop();
                true
            }
            2 => {
                let k = rng.below(self.len() + 2);
                self.truncate(k);
                true
            }
            3 => {
                self.clear();
                true
            }
            4 => {
                let v = Self::random_desc(rng);
                self.push_slice(&v).is_ok()
            }
            5 => {
                if self.len() > 0 {
                    let i = rng.below(self.len());
                    self.remove(i);
                }
                true
            }
            6 => {
                if self.len() > 0 {
                    let i = rng.below(self.len());
                    self.swap_remove(i);
                }
                true
            }
            7 => {
                if self.len() > 0 {
                    let i = rng.below(self.len());
                    self.as_mut_slice()[i].mutate(rng);
                }
                true
            }
            8 => {
                let d = Self::random_desc(rng);
                self.assign_in_place(DE::<Self>(&d)).is_ok()
            }
            9 => {
                let cap = core::cmp::min(self.capacity(), 8);
                let k = rng.below(cap + 1);
                self.resize(k, T::rand(rng));
                true
            }
            10 => {
                let d = Self::random_desc(rng);
                self.extend_until_full(d);
                true
            }
            11 => {
                let a = [T::rand(rng), T::rand(rng), T::rand(rng)];
                self.assign_in_place(vec::FromArray(a)).is_ok()
            }
            _ => self.assign_in_place(vec::Empty).is_ok(),
        }
    }
}

// ---------------------------------------------------------------- FlatString

const CHARS: [char; 8] = ['a', 'Z', '0', ' ', '\u{e9}', '\u{20ac}', '\u{1F600}', '\0'];
fn rand_string(rng: &mut Rng) -> String {
    let n = rng.count();
    (0..n).map(|_| CHARS[rng.below(CHARS.len())]).collect()
}

impl<L: Flat + Length> Model for FlatString<L> {
    type Desc = String;
    fn random_desc(rng: &mut Rng) -> String {
        rand_string(rng)
    }
    unsafe fn emplace_desc<'a>(d: &String, bytes: &'a mut [u8]) -> Result<&'a mut Self, Error> {
        <string::FromStr<&str> as Emplacer<FlatString<L>>>::emplace_unchecked(string::FromStr(d.as_str()), bytes)
    }
    fn content(&self) -> String {
        format!("{:?}", self.as_str())
    }
    fn used_end(&self) -> usize {
        let base = self as *const Self as *const u8 as usize;
        let data = self.as_vec().data().as_ptr() as usize;
        core::cmp::max(size_of::<L>(), data - base + self.len())
    }
    fn mutate(&mut self, rng: &mut Rng) -> bool {
        if rng.grow && rng.below(6) != 0 {
            return self.push(CHARS[rng.below(CHARS.len())]).is_ok();
        }
        match rng.below(6) {
            0 => self.push(CHARS[rng.below(CHARS.len())]).is_ok(),
            1 => {
                let s = rand_string(rng);
                self.push_str(&s).is_ok()
            }
            2 => {
                self.clear();
                true
            }
            3 => {
                let s = rand_string(rng);
                self.assign_in_place(DE::<Self>(&s)).is_ok()
            }
            4 => self.assign_in_place(string::Empty).is_ok(),
            _ => {
                self.as_mut_str().make_ascii_uppercase();
                true
            }
        }
    }
}

// ---------------------------------------------------------------- FlexVec

impl<T, L> Model for FlexVec<T, L>
where
    T: Model + ?Sized,
    L: Flat + Length,
{
    type Desc = Vec<T::Desc>;
    fn random_desc(rng: &mut Rng) -> Self::Desc {
        let n = rng.count();
        (0..n).map(|_| T::random_desc(rng)).collect()
    }
    unsafe fn emplace_desc<'a>(d: &Self::Desc, bytes: &'a mut [u8]) -> Result<&'a mut Self, Error> {
        <flex::FromIterator<T, _, _> as Emplacer<FlexVec<T, L>>>::emplace_unchecked(
            flex::FromIterator::<T, _, _>::new(d.iter().map(|x| DE::<T>(x))),
            bytes,
        )
    }
    fn content(&self) -> String {
        format!("<{}>", self.iter().map(|x| x.content()).collect::<Vec<_>>().join(";"))
    }
    fn used_end(&self) -> usize {
        let bytes = self.as_bytes();
        let offs = ceil(size_of::<L>(), T::ALIGN);
        let mut pos = 0usize;
        let mut items = self.iter();
        loop {
            assert!(pos + size_of::<L>() <= bytes.len(), "reference walk: slot at {} outside {} bytes", pos, bytes.len());
            let next: L = unsafe { core::ptr::read_unaligned(bytes.as_ptr().add(pos) as *const L) };
            if next == L::zero() {
                assert!(items.next().is_none(), "iter() longer than chain");
                return pos + size_of::<L>();
            }
            let item = items.next().expect("chain longer than iter()");
            let item_off = off(bytes, item);
            assert_eq!(item_off, pos + offs, "item payload position");
            if next == L::max_value() {
                assert!(items.next().is_none(), "iter() goes on after the open item");
                return item_off + item.used_end();
            }
            let n = next.to_usize().unwrap();
            // a sealed item must at least contain its content (stored extent kept when shrunk: known)
            assert!(offs + ceil(item.used_end(), T::ALIGN) <= n, "sealed extent {} smaller than content", n);
            pos += n;
        }
    }
    fn mutate(&mut self, rng: &mut Rng) -> bool {
        if rng.grow {
            let n = self.len();
            match rng.below(6) {
                0 => (),
                1 | 2 if n > 0 => {
                    // grow the last (open) item
                    return self.iter_mut().nth(n - 1).unwrap().mutate(rng);
                }
                3 if n > 0 => {
                    let i = rng.below(n);
                    return self.iter_mut().nth(i).unwrap().mutate(rng);
                }
                _ => {
                    let d = T::random_desc(rng);
                    return self.push(DE::<T>(&d)).is_ok();
                }
            }
        }
        match rng.below(9) {
            0 | 1 => {
                let d = T::random_desc(rng);
                self.push(DE::<T>(&d)).is_ok()
            }
            2 => {
                let _ = self.pop();
                true
            }
            3 => {
                let k = rng.below(self.len() + 2);
                self.truncate(k);
                true
            }
            4 => {
                if rng.below(3) == 0 {
                    self.clear();
                }
                true
            }
            5 | 6 => {
                let n = self.len();
                if n > 0 {
                    let i = rng.below(n);
                    self.iter_mut().nth(i).unwrap().mutate(rng)
                } else {
                    true
                }
            }
            7 => {
                let d = Self::random_desc(rng);
                self.assign_in_place(DE::<Self>(&d)).is_ok()
            }
            _ => {
                if rng.below(3) == 0 {
                    self.assign_in_place(flex::Empty).is_ok()
                } else {
                    true
                }
            }
        }
    }
}

// ---------------------------------------------------------------- unsized structs

macro_rules! model_struct {
    ($name:ty, $init:ident, $desc:ident { $($f:ident : $ft:ty,)* ; $last:ident : $lt:ty }) => {
        #[derive(Clone, Debug)]
        pub struct $desc { $($f: <$ft as Model>::Desc,)* $last: <$lt as Model>::Desc }
        impl Model for $name {
            type Desc = $desc;
            fn random_desc(rng: &mut Rng) -> $desc {
                $desc { $($f: <$ft as Model>::random_desc(rng),)* $last: <$lt as Model>::random_desc(rng) }
            }
            unsafe fn emplace_desc<'a>(d: &$desc, bytes: &'a mut [u8]) -> Result<&'a mut Self, Error> {
                $init { $($f: DE::<$ft>(&d.$f),)* $last: DE::<$lt>(&d.$last) }.emplace_unchecked(bytes)
            }
            fn content(&self) -> String {
                let mut s = String::from("{");
                $( s += &format!("{}={},", stringify!($f), self.$f.content()); )*
                s += &format!("{}={}}}", stringify!($last), self.$last.content());
                s
            }
            fn used_end(&self) -> usize {
                off(self, &self.$last) + self.$last.used_end()
            }
            fn mutate(&mut self, rng: &mut Rng) -> bool {
                #[allow(unused_mut)]
                let mut fields = 1usize;
                $( let _ = stringify!($f); fields += 1; )*
                let k = rng.below(fields + 3);
                #[allow(unused_mut)]
                let mut i = 0usize;
                $( if k == i { return self.$f.mutate(rng); } i += 1; )*
                let _ = i;
                if k < fields + 2 {
                    self.$last.mutate(rng)
                } else {
                    let d = <Self as Model>::random_desc(rng);
                    self.assign_in_place(DE::<Self>(&d)).is_ok()
                }
            }
        }
    };
}

#[flat(sized = false, default = true)]
pub struct US1 {
    a: u8,
    b: u16,
    c: FlatVec<u64, u32>,
}
model_struct!(US1, US1Init, US1Desc { a: u8, b: u16, ; c: FlatVec<u64, u32> });

#[flat(sized = false)]
pub struct US2 {
    a: u32,
    b: u8,
    v: FlatVec<u8, u8>,
}
model_struct!(US2, US2Init, US2Desc { a: u32, b: u8, ; v: FlatVec<u8, u8> });

#[flat(sized = false)]
pub struct US2b {
    a: u32,
    b: u8,
    v: FlatVec<u16, u8>,
}
model_struct!(US2b, US2bInit, US2bDesc { a: u32, b: u8, ; v: FlatVec<u16, u8> });

#[flat(sized = false)]
pub struct US3(u8, FlatString<u8>);
#[derive(Clone, Debug)]
pub struct US3Desc(u8, String);
impl Model for US3 {
    type Desc = US3Desc;
    fn random_desc(rng: &mut Rng) -> US3Desc {
        US3Desc(Rand::rand(rng), rand_string(rng))
    }
    unsafe fn emplace_desc<'a>(d: &US3Desc, bytes: &'a mut [u8]) -> Result<&'a mut Self, Error> {
        US3Init(DE::<u8>(&d.0), DE::<FlatString<u8>>(&d.1)).emplace_unchecked(bytes)
    }
    fn content(&self) -> String {
        format!("({},{})", self.0.content(), self.1.content())
    }
    fn used_end(&self) -> usize {
        off(self, &self.1) + self.1.used_end()
    }
    fn mutate(&mut self, rng: &mut Rng) -> bool {
        match rng.below(4) {
            0 => self.0.mutate(rng),
            1 | 2 => self.1.mutate(rng),
            _ => {
                let d = Self::random_desc(rng);
                self.assign_in_place(DE::<Self>(&d)).is_ok()
            }
        }
    }
}

#[flat(sized = false, default = true)]
pub struct US4 {
    v: FlexVec<FlatVec<u8, u8>, u8>,
}
model_struct!(US4, US4Init, US4Desc { ; v: FlexVec<FlatVec<u8, u8>, u8> });

#[flat(sized = false, default = true)]
pub struct US5 {
    a: u64,
    f: FlexVec<FlatString<u8>, u8>,
}
model_struct!(US5, US5Init, US5Desc { a: u64, ; f: FlexVec<FlatString<u8>, u8> });

#[flat(sized = false, default = true)]
pub struct US6 {
    z: [u64; 0],
    a: u8,
    e: UE1,
}
model_struct!(US6, US6Init, US6Desc { z: [u64; 0], a: u8, ; e: UE1 });

#[flat(sized = false)]
pub struct US7<const N: usize> {
    a: [u8; N],
    v: FlatVec<u16, u8>,
}
model_struct!(US7<3>, US7Init, US7Desc3 { a: [u8; 3], ; v: FlatVec<u16, u8> });
model_struct!(US7<0>, US7Init, US7Desc0 { a: [u8; 0], ; v: FlatVec<u16, u8> });

#[flat(sized = false, portable = true)]
pub struct US8 {
    a: le::U32,
    v: FlatVec<le::U16, le::U16>,
}
model_struct!(US8, US8Init, US8Desc { a: le::U32, ; v: FlatVec<le::U16, le::U16> });

#[flat(sized = false)]
pub struct US9 {
    a: u8,
    s: US2,
}
model_struct!(US9, US9Init, US9Desc { a: u8, ; s: US2 });

#[flat(sized = false)]
pub struct US10 {
    a: u16,
    big: u128,
    c: u8,
    v: FlatVec<u8, u8>,
}
model_struct!(US10, US10Init, US10Desc { a: u16, big: u128, c: u8, ; v: FlatVec<u8, u8> });

#[flat(sized = false)]
pub struct US11 {
    a: u8,
    s: FlatString<u32>,
}
model_struct!(US11, US11Init, US11Desc { a: u8, ; s: FlatString<u32> });

#[flat(sized = false)]
pub struct US12 {
    a: u16,
    e: UE3,
}
model_struct!(US12, US12Init, US12Desc { a: u16, ; e: UE3 });

// ---------------------------------------------------------------- unsized enums

#[flat(sized = false, default = true)]
pub enum UE1 {
    #[default]
    A,
    B(u8, u16),
    C {
        offset: u32,
        bytes: FlatVec<u8, u16>,
    },
}
#[derive(Clone, Debug)]
pub enum UE1Desc {
    A,
    B(u8, u16),
    C(u32, Vec<u8>),
}
impl Model for UE1 {
    type Desc = UE1Desc;
    fn random_desc(rng: &mut Rng) -> UE1Desc {
        match rng.below(3) {
            0 => UE1Desc::A,
            1 => UE1Desc::B(Rand::rand(rng), Rand::rand(rng)),
            _ => UE1Desc::C(Rand::rand(rng), <FlatVec<u8, u16>>::random_desc(rng)),
        }
    }
    unsafe fn emplace_desc<'a>(d: &UE1Desc, bytes: &'a mut [u8]) -> Result<&'a mut Self, Error> {
        match d {
            UE1Desc::A => UE1InitA.emplace_unchecked(bytes),
            UE1Desc::B(x, y) => UE1InitB(DE::<u8>(x), DE::<u16>(y)).emplace_unchecked(bytes),
            UE1Desc::C(o, v) => UE1InitC {
                offset: DE::<u32>(o),
                bytes: DE::<FlatVec<u8, u16>>(v),
            }
            .emplace_unchecked(bytes),
        }
    }
    fn content(&self) -> String {
        match self.as_ref() {
            UE1Ref::A => "A".into(),
            UE1Ref::B(x, y) => format!("B({},{})", x.content(), y.content()),
            UE1Ref::C { offset, bytes } => format!("C({},{})", offset.content(), bytes.content()),
        }
    }
    fn used_end(&self) -> usize {
        match self.as_ref() {
            UE1Ref::A => size_of::<u8>(),
            UE1Ref::B(_, y) => off(self, y) + y.used_end(),
            UE1Ref::C { bytes, .. } => off(self, bytes) + bytes.used_end(),
        }
    }
    fn mutate(&mut self, rng: &mut Rng) -> bool {
        if rng.below(4) == 0 {
            let d = Self::random_desc(rng);
            return self.assign_in_place(DE::<Self>(&d)).is_ok();
        }
        let k = rng.below(2);
        match self.as_mut() {
            UE1Mut::A => true,
            UE1Mut::B(x, y) => {
                if k == 0 {
                    x.mutate(rng)
                } else {
                    y.mutate(rng)
                }
            }
            UE1Mut::C { offset, bytes } => {
                if k == 0 {
                    offset.mutate(rng)
                } else {
                    bytes.mutate(rng)
                }
            }
        }
    }
}

#[flat(sized = false, tag_type = "u16")]
pub enum UE2 {
    A = 5,
    B(FlatString<u8>) = 2,
    C(u64) = 9,
}
#[derive(Clone, Debug)]
pub enum UE2Desc {
    A,
    B(String),
    C(u64),
}
impl Model for UE2 {
    type Desc = UE2Desc;
    fn random_desc(rng: &mut Rng) -> UE2Desc {
        match rng.below(3) {
            0 => UE2Desc::A,
            1 => UE2Desc::B(rand_string(rng)),
            _ => UE2Desc::C(Rand::rand(rng)),
        }
    }
    unsafe fn emplace_desc<'a>(d: &UE2Desc, bytes: &'a mut [u8]) -> Result<&'a mut Self, Error> {
        match d {
            UE2Desc::A => UE2InitA.emplace_unchecked(bytes),
            UE2Desc::B(s) => UE2InitB(DE::<FlatString<u8>>(s)).emplace_unchecked(bytes),
            UE2Desc::C(x) => UE2InitC(DE::<u64>(x)).emplace_unchecked(bytes),
        }
    }
    fn content(&self) -> String {
        match self.as_ref() {
            UE2Ref::A => "A".into(),
            UE2Ref::B(s) => format!("B({})", s.content()),
            UE2Ref::C(x) => format!("C({})", x.content()),
        }
    }
    fn used_end(&self) -> usize {
        match self.as_ref() {
            UE2Ref::A => size_of::<u16>(),
            UE2Ref::B(s) => off(self, s) + s.used_end(),
            UE2Ref::C(x) => off(self, x) + x.used_end(),
        }
    }
    fn mutate(&mut self, rng: &mut Rng) -> bool {
        if rng.below(4) == 0 {
            let d = Self::random_desc(rng);
            return self.assign_in_place(DE::<Self>(&d)).is_ok();
        }
        match self.as_mut() {
            UE2Mut::A => true,
            UE2Mut::B(s) => s.mutate(rng),
            UE2Mut::C(x) => x.mutate(rng),
        }
    }
}

#[flat(sized = false)]
pub enum UE3 {
    S(US2),
    F(FlexVec<FlatVec<u8, u8>, u8>),
    Z((), FlatVec<u32, u8>),
    N,
}
#[derive(Clone, Debug)]
pub enum UE3Desc {
    S(US2Desc),
    F(Vec<Vec<u8>>),
    Z(Vec<u32>),
    N,
}
impl Model for UE3 {
    type Desc = UE3Desc;
    fn random_desc(rng: &mut Rng) -> UE3Desc {
        match rng.below(4) {
            0 => UE3Desc::S(US2::random_desc(rng)),
            1 => UE3Desc::F(<FlexVec<FlatVec<u8, u8>, u8>>::random_desc(rng)),
            2 => UE3Desc::Z(<FlatVec<u32, u8>>::random_desc(rng)),
            _ => UE3Desc::N,
        }
    }
    unsafe fn emplace_desc<'a>(d: &UE3Desc, bytes: &'a mut [u8]) -> Result<&'a mut Self, Error> {
        match d {
            UE3Desc::S(s) => UE3InitS(DE::<US2>(s)).emplace_unchecked(bytes),
            UE3Desc::F(f) => UE3InitF(DE::<FlexVec<FlatVec<u8, u8>, u8>>(f)).emplace_unchecked(bytes),
            UE3Desc::Z(v) => UE3InitZ(DE::<()>(&()), DE::<FlatVec<u32, u8>>(v)).emplace_unchecked(bytes),
            UE3Desc::N => UE3InitN.emplace_unchecked(bytes),
        }
    }
    fn content(&self) -> String {
        match self.as_ref() {
            UE3Ref::S(s) => format!("S({})", s.content()),
            UE3Ref::F(f) => format!("F({})", f.content()),
            UE3Ref::Z(_, v) => format!("Z({})", v.content()),
            UE3Ref::N => "N".into(),
        }
    }
    fn used_end(&self) -> usize {
        match self.as_ref() {
            UE3Ref::S(s) => off(self, s) + s.used_end(),
            UE3Ref::F(f) => off(self, f) + f.used_end(),
            UE3Ref::Z(_, v) => off(self, v) + v.used_end(),
            UE3Ref::N => size_of::<u8>(),
        }
    }
    fn mutate(&mut self, rng: &mut Rng) -> bool {
        if rng.below(5) == 0 {
            let d = Self::random_desc(rng);
            return self.assign_in_place(DE::<Self>(&d)).is_ok();
        }
        match self.as_mut() {
            UE3Mut::S(s) => s.mutate(rng),
            UE3Mut::F(f) => f.mutate(rng),
            UE3Mut::Z(_, v) => v.mutate(rng),
            UE3Mut::N => true,
        }
    }
}

#[flat(sized = false, tag_type = "u32")]
pub enum UE4 {
    A(u8),
    B(u16, u8),
}
#[derive(Clone, Debug)]
pub enum UE4Desc {
    A(u8),
    B(u16, u8),
}
impl Model for UE4 {
    type Desc = UE4Desc;
    fn random_desc(rng: &mut Rng) -> UE4Desc {
        match rng.below(2) {
            0 => UE4Desc::A(Rand::rand(rng)),
            _ => UE4Desc::B(Rand::rand(rng), Rand::rand(rng)),
        }
    }
    unsafe fn emplace_desc<'a>(d: &UE4Desc, bytes: &'a mut [u8]) -> Result<&'a mut Self, Error> {
        match d {
            UE4Desc::A(x) => UE4InitA(DE::<u8>(x)).emplace_unchecked(bytes),
            UE4Desc::B(x, y) => UE4InitB(DE::<u16>(x), DE::<u8>(y)).emplace_unchecked(bytes),
        }
    }
    fn content(&self) -> String {
        match self.as_ref() {
            UE4Ref::A(x) => format!("A({})", x),
            UE4Ref::B(x, y) => format!("B({},{})", x, y),
        }
    }
    fn used_end(&self) -> usize {
        match self.as_ref() {
            UE4Ref::A(x) => off(self, x) + 1,
            UE4Ref::B(_, y) => off(self, y) + 1,
        }
    }
    fn mutate(&mut self, rng: &mut Rng) -> bool {
        if rng.below(3) == 0 {
            let d = Self::random_desc(rng);
            return self.assign_in_place(DE::<Self>(&d)).is_ok();
        }
        match self.as_mut() {
            UE4Mut::A(x) => x.mutate(rng),
            UE4Mut::B(x, _) => x.mutate(rng),
        }
    }
}

#[flat(sized = false, portable = true)]
pub enum UE5 {
    A,
    B(le::U32, FlatVec<u8, le::U16>),
}
#[derive(Clone, Debug)]
pub enum UE5Desc {
    A,
    B(le::U32, Vec<u8>),
}
impl Model for UE5 {
    type Desc = UE5Desc;
    fn random_desc(rng: &mut Rng) -> UE5Desc {
        match rng.below(2) {
            0 => UE5Desc::A,
            _ => UE5Desc::B(Rand::rand(rng), <FlatVec<u8, le::U16>>::random_desc(rng)),
        }
    }
    unsafe fn emplace_desc<'a>(d: &UE5Desc, bytes: &'a mut [u8]) -> Result<&'a mut Self, Error> {
        match d {
            UE5Desc::A => UE5InitA.emplace_unchecked(bytes),
            UE5Desc::B(x, v) => UE5InitB(DE::<le::U32>(x), DE::<FlatVec<u8, le::U16>>(v)).emplace_unchecked(bytes),
        }
    }
    fn content(&self) -> String {
        match self.as_ref() {
            UE5Ref::A => "A".into(),
            UE5Ref::B(x, v) => format!("B({},{})", x.content(), v.content()),
        }
    }
    fn used_end(&self) -> usize {
        match self.as_ref() {
            UE5Ref::A => 1,
            UE5Ref::B(_, v) => off(self, v) + v.used_end(),
        }
    }
    fn mutate(&mut self, rng: &mut Rng) -> bool {
        if rng.below(3) == 0 {
            let d = Self::random_desc(rng);
            return self.assign_in_place(DE::<Self>(&d)).is_ok();
        }
        match self.as_mut() {
            UE5Mut::A => true,
            UE5Mut::B(x, v) => {
                if rng.below(2) == 0 {
                    x.mutate(rng)
                } else {
                    v.mutate(rng)
                }
            }
        }
    }
}

#[flat(sized = false)]
pub enum UE6 {
    E(UE1),
    X,
    W(u64, UE2),
}
#[derive(Clone, Debug)]
pub enum UE6Desc {
    E(UE1Desc),
    X,
    W(u64, UE2Desc),
}
impl Model for UE6 {
    type Desc = UE6Desc;
    fn random_desc(rng: &mut Rng) -> UE6Desc {
        match rng.below(3) {
            0 => UE6Desc::E(UE1::random_desc(rng)),
            1 => UE6Desc::X,
            _ => UE6Desc::W(Rand::rand(rng), UE2::random_desc(rng)),
        }
    }
    unsafe fn emplace_desc<'a>(d: &UE6Desc, bytes: &'a mut [u8]) -> Result<&'a mut Self, Error> {
        match d {
            UE6Desc::E(e) => UE6InitE(DE::<UE1>(e)).emplace_unchecked(bytes),
            UE6Desc::X => UE6InitX.emplace_unchecked(bytes),
            UE6Desc::W(x, e) => UE6InitW(DE::<u64>(x), DE::<UE2>(e)).emplace_unchecked(bytes),
        }
    }
    fn content(&self) -> String {
        match self.as_ref() {
            UE6Ref::E(e) => format!("E({})", e.content()),
            UE6Ref::X => "X".into(),
            UE6Ref::W(x, e) => format!("W({},{})", x, e.content()),
        }
    }
    fn used_end(&self) -> usize {
        match self.as_ref() {
            UE6Ref::E(e) => off(self, e) + e.used_end(),
            UE6Ref::X => 1,
            UE6Ref::W(_, e) => off(self, e) + e.used_end(),
        }
    }
    fn mutate(&mut self, rng: &mut Rng) -> bool {
        if rng.below(4) == 0 {
            let d = Self::random_desc(rng);
            return self.assign_in_place(DE::<Self>(&d)).is_ok();
        }
        match self.as_mut() {
            UE6Mut::E(e) => e.mutate(rng),
            UE6Mut::X => true,
            UE6Mut::W(x, e) => {
                if rng.below(3) == 0 {
                    x.mutate(rng)
                } else {
                    e.mutate(rng)
                }
            }
        }
    }
}

// ---------------------------------------------------------------- the property

#[derive(Default)]
pub struct Stats {
    checks: usize,
    constructed: usize,
    construct_failed: usize,
    failed_ops: usize,
    invalid_after_failed_op: usize,
    fuzz_valid: usize,
    prefix_ok: usize,
}

fn check<T: Model + ?Sized>(x: &T, mapped: usize, ctx: &dyn Fn() -> String) {
    assert_eq!(T::ALIGN, align_of_val(x), "ALIGN vs align_of_val [{}]", ctx());
    let content = x.content();
    let used = x.used_end();
    let reference = ceil(used, T::ALIGN);
    let size = x.size();
    assert_eq!(size, reference, "size() != reference extent; content {} [{}]", content, ctx());
    assert!(size <= mapped, "size() {} exceeds the {} bytes mapped; content {} [{}]", size, mapped, content, ctx());
    let bytes = x.as_bytes();
    assert!(bytes.len() <= mapped, "as_bytes() {} longer than the {} bytes mapped [{}]", bytes.len(), mapped, ctx());
    assert!(size <= bytes.len(), "size() {} exceeds as_bytes() {} [{}]", size, bytes.len(), ctx());
    assert!(size >= T::MIN_SIZE, "size() {} below MIN_SIZE {} [{}]", size, T::MIN_SIZE, ctx());
    // same address, only the first size() bytes
    match T::from_bytes(&bytes[..size]) {
        Ok(y) => {
            assert_eq!(y.content(), content, "prefix mapping changed the content [{}]", ctx());
            assert_eq!(y.size(), size, "prefix mapping changed size() [{}]", ctx());
        }
        Err(e) => panic!("mapping the first size()={} bytes failed: {:?}; content {} [{}]", size, e, content, ctx()),
    }
    // exact-size copy somewhere else
    let copy = AlignedBytes::from_slice(&bytes[..size], T::ALIGN);
    match T::from_bytes(&copy) {
        Ok(y) => {
            assert_eq!(y.content(), content, "copy of prefix changed the content [{}]", ctx());
            assert_eq!(y.size(), size, "copy of prefix changed size() [{}]", ctx());
            assert_eq!(y.used_end(), used, "copy of prefix changed the used extent [{}]", ctx());
        }
        Err(e) => panic!("mapping a copy of the first size()={} bytes failed: {:?}; content {} [{}]", size, e, content, ctx()),
    }
    // the first size() bytes followed by something else (the next message of a stream)
    let mut img: Vec<u8> = bytes[..size].to_vec();
    let extra = (size * 7 + used * 3 + content.len()) % 23;
    for i in 0..extra {
        img.push(if i % 3 == 0 { 0xff } else { (i * 37 + content.len()) as u8 });
    }
    let copy = AlignedBytes::from_slice(&img, T::ALIGN);
    match T::from_bytes(&copy) {
        Ok(y) => {
            assert_eq!(y.content(), content, "a foreign tail changed the content [{}]", ctx());
            assert_eq!(y.size(), size, "a foreign tail changed size() [{}]", ctx());
        }
        Err(e) => panic!("mapping the first size()={} bytes followed by {} foreign bytes failed: {:?}; content {} [{}]", size, extra, e, content, ctx()),
    }
}

fn run<T: Model + ?Sized>(name: &str, seeds: u64, max_len: usize, steps: usize) -> Stats {
    let mut st = Stats::default();
    let salt = name.bytes().fold(0u64, |a, b| a.wrapping_mul(131).wrapping_add(b as u64));
    for seed in 0..seeds {
        let mut rng = Rng::new(seed.wrapping_add(salt.wrapping_mul(1000003)));
        rng.max_items = rng.below(6);
        let grow = seed % 4 == 3;
        let steps = if grow { steps * if cfg!(miri) { 4 } else { 14 } } else { steps };
        let n = if rng.below(8) == 0 { rng.below(T::MIN_SIZE + 2) } else { rng.below(max_len + 1) };
        let start = T::ALIGN * rng.below(3);
        let fill: Vec<u8> = (0..start + n).map(|_| if rng.below(3) == 0 { 0xff } else { rng.next() as u8 }).collect();
        let mut buf = AlignedBytes::from_slice(&fill, core::cmp::max(T::ALIGN, 1));
        let bytes = &mut buf[start..start + n];

        let desc = T::random_desc(&mut rng);
        if T::new_in_place(bytes, DE::<T>(&desc)).is_err() {
            st.construct_failed += 1;
            // whatever is there now: if it validates, it is a valid value
            if let Ok(y) = T::from_bytes(bytes) {
                check(y, n, &|| format!("{} seed {} n {} after failed construction {:?}", name, seed, n, desc));
                st.checks += 1;
            }
            continue;
        }
        st.constructed += 1;
        rng.grow = grow;
        let mut history: Vec<String> = vec![format!("new {:?}", desc)];
        for step in 0..steps {
            let ctx = |h: &Vec<String>| format!("{} seed {} n {} start {} step {} history {:?}", name, seed, n, start, step, h);
            {
                let x = match T::from_mut_bytes(bytes) {
                    Ok(x) => x,
                    Err(e) => panic!("remapping the buffer failed: {:?} [{}]", e, ctx(&history)),
                };
                check(x, n, &|| ctx(&history));
                st.checks += 1;
            }
            // every admissible (and inadmissible) prefix length
            if step % 4 == 0 && (!grow || step % 16 == 0) {
                let (size, content) = {
                    let x = T::from_bytes(bytes).unwrap();
                    (x.size(), x.content())
                };
                for k in 0..=n {
                    match T::from_bytes(&bytes[..k]) {
                        Ok(y) => {
                            st.prefix_ok += 1;
                            assert!(y.size() <= k, "size() {} exceeds {} bytes mapped [{}]", y.size(), k, ctx(&history));
                            if k >= size {
                                assert_eq!(y.content(), content, "content differs on {} of {} bytes [{}]", k, n, ctx(&history));
                                assert_eq!(y.size(), size, "size() differs on {} of {} bytes [{}]", k, n, ctx(&history));
                            } else {
                                check(y, k, &|| format!("short prefix {} of {}: {}", k, n, ctx(&history)));
                            }
                        }
                        Err(e) => {
                            assert!(k < size, "mapping {} >= size() {} bytes failed: {:?} [{}]", k, size, e, ctx(&history));
                        }
                    }
                }
            }
            // byte fuzz on a copy
            if rng.below(3) == 0 && n > 0 {
                let mut img = AlignedBytes::from_slice(bytes, core::cmp::max(T::ALIGN, 1));
                for _ in 0..(1 + rng.below(3)) {
                    let i = rng.below(core::cmp::min(n, 24));
                    img[i] = match rng.below(5) {
                        0 => 0,
                        1 => 0xff,
                        2 => rng.below(n + 1) as u8,
                        3 => (i as u8).wrapping_add(1),
                        _ => rng.next() as u8,
                    };
                }
                if let Ok(y) = T::from_bytes(&img) {
                    st.fuzz_valid += 1;
                    check(y, n, &|| format!("fuzzed image {:?}: {}", &img[..], ctx(&history)));
                }
            }
            // mutate
            let before = rng.s;
            let ok = {
                let x = unsafe { T::from_mut_bytes_unchecked(bytes) };
                x.mutate(&mut rng)
            };
            history.push(format!("m{:x}:{}", before & 0xffff, ok));
            if !ok {
                st.failed_ops += 1;
            }
            if let Err(e) = T::validate(bytes) {
                if ok {
                    panic!("successful mutation left an invalid value: {:?} [{}]", e, ctx(&history));
                }
                // known: one-pass initialisers may leave a torn value behind when they fail
                st.invalid_after_failed_op += 1;
                break;
            }
        }
    }
    eprintln!(
        "{:<44} checks {:>7} constructed {:>5} cfail {:>5} failed_ops {:>6} torn {:>4} fuzz_valid {:>6} prefix_ok {:>7}",
        name, st.checks, st.constructed, st.construct_failed, st.failed_ops, st.invalid_after_failed_op, st.fuzz_valid, st.prefix_ok
    );
    st
}

fn run_images<T: Model + ?Sized>(name: &str, count: u64, max_len: usize) {
    let salt = name.bytes().fold(7u64, |a, b| a.wrapping_mul(131).wrapping_add(b as u64));
    let mut valid = 0usize;
    const ALPHA: [u8; 12] = [0, 0, 0, 1, 2, 3, 4, 5, 8, 12, 16, 0xff];
    for seed in 0..count {
        let mut rng = Rng::new(seed.wrapping_add(salt.wrapping_mul(7919)));
        let n = rng.below(max_len + 1);
        let style = rng.below(3);
        let img: Vec<u8> = (0..n)
            .map(|_| match style {
                0 => ALPHA[rng.below(ALPHA.len())],
                1 => {
                    if rng.below(4) == 0 {
                        ALPHA[rng.below(ALPHA.len())]
                    } else {
                        0
                    }
                }
                _ => {
                    if rng.below(6) == 0 {
                        rng.next() as u8
                    } else {
                        ALPHA[rng.below(ALPHA.len())]
                    }
                }
            })
            .collect();
        let buf = AlignedBytes::from_slice(&img, core::cmp::max(T::ALIGN, 1));
        if let Ok(y) = T::from_bytes(&buf) {
            valid += 1;
            check(y, n, &|| format!("{} image {:?}", name, img));
            // all shorter mappings of the same image
            let size = y.size();
            let content = y.content();
            for k in 0..=n {
                match T::from_bytes(&buf[..k]) {
                    Ok(z) => {
                        assert!(z.size() <= k, "size() {} exceeds {} bytes mapped; {} image {:?}", z.size(), k, name, img);
                        if k >= size {
                            assert_eq!(z.content(), content, "content differs on {} bytes; {} image {:?}", k, name, img);
                            assert_eq!(z.size(), size, "size() differs on {} bytes; {} image {:?}", k, name, img);
                        } else {
                            check(z, k, &|| format!("{} image {:?} prefix {}", name, img, k));
                        }
                    }
                    Err(e) => assert!(k < size, "mapping {} >= size() {} bytes failed: {:?}; {} image {:?}", k, size, e, name, img),
                }
            }
        }
    }
    eprintln!("{:<44} images {:>7} valid {:>7}", name, count, valid);
}

fn scale() -> (u64, usize) {
    if cfg!(miri) {
        (4, 8)
    } else {
        let s = std::env::var("C05_SEEDS").ok().and_then(|s| s.parse().ok()).unwrap_or(300);
        (s, 24)
    }
}

macro_rules! t {
    ($fn:ident, $ty:ty, $max:expr) => {
        #[test]
        fn $fn() {
            let (seeds, steps) = scale();
            run::<$ty>(stringify!($ty), seeds, $max, steps);
            run_images::<$ty>(stringify!($ty), seeds * if cfg!(miri) { 6 } else { 20 }, core::cmp::min($max, 48));
        }
    };
}

t!(fv_u8_u8, FlatVec<u8, u8>, 20);
t!(fv_u32_u8, FlatVec<u32, u8>, 40);
t!(fv_u8_u32, FlatVec<u8, u32>, 24);
t!(fv_u64_u16, FlatVec<u64, u16>, 64);
t!(fv_a3_u16, FlatVec<[u8; 3], u16>, 32);
t!(fv_unit_u8, FlatVec<(), u8>, 8);
t!(fv_z64_u8, FlatVec<[u64; 0], u8>, 24);
t!(fv_u128_u8, FlatVec<u128, u8>, 100);
t!(fv_ss_leu16, FlatVec<SS, le::U16>, 64);
t!(fv_u16_beu32, FlatVec<u16, be::U32>, 32);
t!(fv_se_u8, FlatVec<SE, u8>, 64);
t!(fv_bool_u8, FlatVec<Bool, u8>, 16);
t!(fv_cl_u8, FlatVec<CL, u8>, 16);
t!(fv_u8_usize, FlatVec<u8, usize>, 24);
#[cfg(target_pointer_width = "64")]
t!(fv_u8_u64, FlatVec<u8, u64>, 24);
t!(fv_big, FlatVec<u8, u8>, 400);

t!(fs_u8, FlatString<u8>, 24);
t!(fs_u16, FlatString<u16>, 24);
t!(fs_u32, FlatString<u32>, 32);
t!(fs_leu16, FlatString<le::U16>, 24);
t!(fs_usize, FlatString<usize>, 40);
t!(fs_big, FlatString<u8>, 400);

t!(fx_fv8_u8, FlexVec<FlatVec<u8, u8>, u8>, 40);
t!(fx_fv32_u8, FlexVec<FlatVec<u32, u16>, u8>, 80);
t!(fx_fv8_u32, FlexVec<FlatVec<u8, u8>, u32>, 64);
t!(fx_fs_u16, FlexVec<FlatString<u8>, u16>, 48);
t!(fx_u32_u8, FlexVec<u32, u8>, 48);
t!(fx_unit_u8, FlexVec<(), u8>, 12);
t!(fx_z64_u8, FlexVec<[u64; 0], u8>, 48);
t!(fx_nested, FlexVec<FlexVec<FlatVec<u8, u8>, u8>, u8>, 64);
t!(fx_ue1_u16, FlexVec<UE1, u16>, 80);
t!(fx_us2_u8, FlexVec<US2, u8>, 80);
t!(fx_fv64_leu16, FlexVec<FlatVec<u64, u8>, le::U16>, 120);
t!(fx_fv8_big, FlexVec<FlatVec<u8, u8>, u8>, 600);
t!(fx_ue3_u8, FlexVec<UE3, u8>, 120);
t!(fx_se_u8, FlexVec<SE, u8>, 64);
#[cfg(target_pointer_width = "64")]
t!(fx_fv8_u64, FlexVec<FlatVec<u8, u8>, u64>, 64);
t!(fx_u128, FlexVec<FlatVec<u128, u8>, u8>, 200);

t!(us1, US1, 64);
t!(us2, US2, 32);
t!(us2b, US2b, 32);
t!(us3, US3, 24);
t!(us4, US4, 48);
t!(us5, US5, 64);
t!(us6, US6, 48);
t!(us7_3, US7<3>, 32);
t!(us7_0, US7<0>, 32);
t!(us8, US8, 32);
t!(us9, US9, 40);
t!(us10, US10, 80);
t!(us11, US11, 32);
t!(us12, US12, 80);

t!(ue1, UE1, 32);
t!(ue2, UE2, 40);
t!(ue3, UE3, 64);
t!(ue4, UE4, 16);
t!(ue5, UE5, 24);
t!(ue6, UE6, 64);

// ---------------------------------------------------------------- odd-sized length types

macro_rules! odd_len {
    ($name:ident, $store:ty, $bits:expr, $get:expr, $new:expr) => {
        #[derive(Clone, Copy, PartialEq, Eq, Debug, Default)]
        #[repr(C)]
        pub struct $name($store);
        impl $name {
            fn get(self) -> u64 {
                let f: fn($store) -> u64 = $get;
                f(self.0)
            }
            fn new(x: u64) -> Self {
                assert!(x < (1u64 << $bits), "overflow");
                let f: fn(u64) -> $store = $new;
                $name(f(x))
            }
        }
        unsafe impl FlatValidate for $name {
            unsafe fn validate_unchecked(_: &[u8]) -> Result<(), Error> {
                Ok(())
            }
        }
        unsafe impl Flat for $name {}
        impl PartialOrd for $name {
            fn partial_cmp(&self, o: &Self) -> Option<core::cmp::Ordering> {
                Some(self.cmp(o))
            }
        }
        impl Ord for $name {
            fn cmp(&self, o: &Self) -> core::cmp::Ordering {
                self.get().cmp(&o.get())
            }
        }
        impl core::ops::Add for $name { type Output = Self; fn add(self, o: Self) -> Self { Self::new(self.get() + o.get()) } }
        impl core::ops::Sub for $name { type Output = Self; fn sub(self, o: Self) -> Self { Self::new(self.get() - o.get()) } }
        impl core::ops::Mul for $name { type Output = Self; fn mul(self, o: Self) -> Self { Self::new(self.get() * o.get()) } }
        impl core::ops::Div for $name { type Output = Self; fn div(self, o: Self) -> Self { Self::new(self.get() / o.get()) } }
        impl core::ops::Rem for $name { type Output = Self; fn rem(self, o: Self) -> Self { Self::new(self.get() % o.get()) } }
        impl core::ops::AddAssign for $name { fn add_assign(&mut self, o: Self) { *self = *self + o; } }
        impl core::ops::SubAssign for $name { fn sub_assign(&mut self, o: Self) { *self = *self - o; } }
        impl core::ops::MulAssign for $name { fn mul_assign(&mut self, o: Self) { *self = *self * o; } }
        impl core::ops::DivAssign for $name { fn div_assign(&mut self, o: Self) { *self = *self / o; } }
        impl core::ops::RemAssign for $name { fn rem_assign(&mut self, o: Self) { *self = *self % o; } }
        impl num_traits::Zero for $name { fn zero() -> Self { Self::new(0) } fn is_zero(&self) -> bool { self.get() == 0 } }
        impl num_traits::One for $name { fn one() -> Self { Self::new(1) } }
        impl num_traits::Num for $name {
            type FromStrRadixErr = core::num::ParseIntError;
            fn from_str_radix(s: &str, r: u32) -> Result<Self, Self::FromStrRadixErr> { Ok(Self::new(u64::from_str_radix(s, r)?)) }
        }
        impl num_traits::Unsigned for $name {}
        impl num_traits::Bounded for $name {
            fn min_value() -> Self { Self::new(0) }
            fn max_value() -> Self { Self::new((1u64 << $bits) - 1) }
        }
        impl num_traits::ToPrimitive for $name {
            fn to_i64(&self) -> Option<i64> { Some(self.get() as i64) }
            fn to_u64(&self) -> Option<u64> { Some(self.get()) }
        }
        impl num_traits::FromPrimitive for $name {
            fn from_i64(n: i64) -> Option<Self> { if n >= 0 { Self::from_u64(n as u64) } else { None } }
            fn from_u64(n: u64) -> Option<Self> { if n < (1u64 << $bits) { Some(Self::new(n)) } else { None } }
        }
    };
}
odd_len!(U24, [u8; 3], 24, |b| b[0] as u64 | (b[1] as u64) << 8 | (b[2] as u64) << 16, |x| [x as u8, (x >> 8) as u8, (x >> 16) as u8]);
odd_len!(U48, [u16; 3], 48, |b| b[0] as u64 | (b[1] as u64) << 16 | (b[2] as u64) << 32, |x| [x as u16, (x >> 16) as u16, (x >> 32) as u16]);
// a length type that is over-aligned w.r.t. its value range: 12 bytes, align 4
odd_len!(U96, [u32; 3], 40, |b| b[0] as u64 | ((b[1] as u64) & 0xff) << 32, |x| [x as u32, (x >> 32) as u32, 0]);

t!(fv_u16_u24, FlatVec<u16, U24>, 32);
t!(fv_u8_u24, FlatVec<u8, U24>, 32);
t!(fs_u24, FlatString<U24>, 32);
t!(fx_fv16_u24, FlexVec<FlatVec<u16, u8>, U24>, 64);
t!(fx_fv8_u24, FlexVec<FlatVec<u8, u8>, U24>, 64);
#[cfg(target_pointer_width = "64")]
t!(fv_u32_u48, FlatVec<u32, U48>, 48);
#[cfg(target_pointer_width = "64")]
t!(fv_u8_u48, FlatVec<u8, U48>, 32);
#[cfg(target_pointer_width = "64")]
t!(fx_fv32_u48, FlexVec<FlatVec<u32, u8>, U48>, 96);
#[cfg(target_pointer_width = "64")]
t!(fx_fs24_u48, FlexVec<FlatString<U24>, U48>, 64);
#[cfg(target_pointer_width = "64")]
t!(fx_fv64_u96, FlexVec<FlatVec<u64, u8>, U96>, 160);
#[cfg(target_pointer_width = "64")]
t!(fv_u8_u96, FlatVec<u8, U96>, 48);
#[cfg(target_pointer_width = "64")]
t!(fx_fv8_u96, FlexVec<FlatVec<u8, u8>, U96>, 96);
#[cfg(target_pointer_width = "64")]
t!(fs_u96, FlatString<U96>, 48);

#[flat(sized = false)]
pub struct US13 {
    a: u8,
    v: FlatVec<u32, U24>,
}
model_struct!(US13, US13Init, US13Desc { a: u8, ; v: FlatVec<u32, U24> });
t!(us13, US13, 48);

// ---------------------------------------------------------------- generics

#[flat(sized = false)]
pub struct G<T: Flat, const N: usize> {
    a: T,
    b: [u8; N],
    v: FlatVec<T, u16>,
}
model_struct!(G<u64, 3>, GInit, GDesc64 { a: u64, b: [u8; 3], ; v: FlatVec<u64, u16> });
model_struct!(G<u8, 0>, GInit, GDesc8 { a: u8, b: [u8; 0], ; v: FlatVec<u8, u16> });
model_struct!(G<SS, 5>, GInit, GDescSS { a: SS, b: [u8; 5], ; v: FlatVec<SS, u16> });
t!(g_u64_3, G<u64, 3>, 64);
t!(g_u8_0, G<u8, 0>, 24);
t!(g_ss_5, G<SS, 5>, 64);

// ---------------------------------------------------------------- exotic enums

#[flat(sized = false, tag_type = "u64")]
pub enum UE7 {
    A(),
    B {},
    C(u8, u64, u16, FlatVec<u32, u8>),
    D(FlatString<u8>),
}
#[derive(Clone, Debug)]
pub enum UE7Desc {
    A,
    B,
    C(u8, u64, u16, Vec<u32>),
    D(String),
}
impl Model for UE7 {
    type Desc = UE7Desc;
    fn random_desc(rng: &mut Rng) -> UE7Desc {
        match rng.below(4) {
            0 => UE7Desc::A,
            1 => UE7Desc::B,
            2 => UE7Desc::C(Rand::rand(rng), Rand::rand(rng), Rand::rand(rng), <FlatVec<u32, u8>>::random_desc(rng)),
            _ => UE7Desc::D(rand_string(rng)),
        }
    }
    unsafe fn emplace_desc<'a>(d: &UE7Desc, bytes: &'a mut [u8]) -> Result<&'a mut Self, Error> {
        match d {
            UE7Desc::A => UE7InitA().emplace_unchecked(bytes),
            UE7Desc::B => UE7InitB {}.emplace_unchecked(bytes),
            UE7Desc::C(a, b, c, v) => UE7InitC(DE::<u8>(a), DE::<u64>(b), DE::<u16>(c), DE::<FlatVec<u32, u8>>(v)).emplace_unchecked(bytes),
            UE7Desc::D(s) => UE7InitD(DE::<FlatString<u8>>(s)).emplace_unchecked(bytes),
        }
    }
    fn content(&self) -> String {
        match self.as_ref() {
            UE7Ref::A() => "A".into(),
            UE7Ref::B {} => "B".into(),
            UE7Ref::C(a, b, c, v) => format!("C({},{},{},{})", a, b, c, v.content()),
            UE7Ref::D(s) => format!("D({})", s.content()),
        }
    }
    fn used_end(&self) -> usize {
        match self.as_ref() {
            UE7Ref::A() => 8,
            UE7Ref::B {} => 8,
            UE7Ref::C(_, _, _, v) => off(self, v) + v.used_end(),
            UE7Ref::D(s) => off(self, s) + s.used_end(),
        }
    }
    fn mutate(&mut self, rng: &mut Rng) -> bool {
        if rng.below(4) == 0 {
            let d = Self::random_desc(rng);
            return self.assign_in_place(DE::<Self>(&d)).is_ok();
        }
        match self.as_mut() {
            UE7Mut::A() => true,
            UE7Mut::B {} => true,
            UE7Mut::C(a, b, c, v) => match rng.below(5) {
                0 => a.mutate(rng),
                1 => b.mutate(rng),
                2 => c.mutate(rng),
                _ => v.mutate(rng),
            },
            UE7Mut::D(s) => s.mutate(rng),
        }
    }
}
t!(ue7, UE7, 64);
t!(fx_ue7, FlexVec<UE7, u16>, 160);

// ---------------------------------------------------------------- defaults

fn defaults<T: Model + FlatDefault + ?Sized>(name: &str, max: usize) {
    for n in 0..=max {
        for start in [0usize, T::ALIGN] {
            let fill: Vec<u8> = (0..start + n).map(|i| (i as u8).wrapping_mul(37) | 1).collect();
            let mut buf = AlignedBytes::from_slice(&fill, T::ALIGN);
            let bytes = &mut buf[start..start + n];
            match T::default_in_place(bytes) {
                Ok(x) => {
                    check(x, n, &|| format!("{} default on {} bytes", name, n));
                    assert_eq!(x.size(), T::MIN_SIZE.max(x.size()), "{}", name);
                }
                Err(_) => assert!(n < T::MIN_SIZE || true),
            }
        }
    }
}

fn push_defaults<T: Model + FlatDefault + ?Sized, L: Flat + Length>(name: &str, max: usize) {
    for n in 0..=max {
        let fill: Vec<u8> = (0..n).map(|i| (i as u8).wrapping_mul(91) | 0x80).collect();
        let mut buf = AlignedBytes::from_slice(&fill, <FlexVec<T, L>>::ALIGN);
        let Ok(v) = <FlexVec<T, L>>::default_in_place(&mut buf) else { continue };
        let mut rng = Rng::new(n as u64);
        rng.grow = true;
        for step in 0..40 {
            check(v, n, &|| format!("{} push_default n {} step {}", name, n, step));
            match step % 3 {
                0 | 1 => {
                    let _ = v.push_default();
                }
                _ => {
                    let k = v.len();
                    if k > 0 {
                        v.iter_mut().nth(rng.below(k)).unwrap().mutate(&mut rng);
                    }
                }
            }
        }
    }
}

#[test]
fn default_values() {
    defaults::<US1>("US1", 48);
    defaults::<US4>("US4", 16);
    defaults::<US5>("US5", 32);
    defaults::<US6>("US6", 32);
    defaults::<UE1>("UE1", 16);
    defaults::<FlatVec<u64, u8>>("FlatVec<u64,u8>", 32);
    defaults::<FlatString<u32>>("FlatString<u32>", 16);
    defaults::<FlexVec<FlatVec<u64, u8>, u8>>("FlexVec<FlatVec<u64,u8>,u8>", 32);
    defaults::<u32>("u32", 8);
    defaults::<[u8; 0]>("[u8;0]", 2);
    push_defaults::<US1, u8>("FlexVec<US1,u8>", 120);
    push_defaults::<UE1, u16>("FlexVec<UE1,u16>", 60);
    push_defaults::<FlatVec<u8, u8>, u8>("FlexVec<FlatVec<u8,u8>,u8>", 40);
    push_defaults::<FlexVec<FlatString<u8>, u8>, u32>("FlexVec<FlexVec<FlatString<u8>,u8>,u32>", 64);
    push_defaults::<u32, u8>("FlexVec<u32,u8>", 40);
    push_defaults::<(), u8>("FlexVec<(),u8>", 20);
}

// ---------------------------------------------------------------- framing through the IO layer

struct Chunked {
    data: Vec<u8>,
    pos: usize,
    rng: Rng,
}
impl std::io::Read for Chunked {
    fn read(&mut self, buf: &mut [u8]) -> std::io::Result<usize> {
        let left = self.data.len() - self.pos;
        if left == 0 || buf.is_empty() {
            return Ok(0);
        }
        let n = core::cmp::min(core::cmp::min(left, buf.len()), 1 + self.rng.below(9));
        buf[..n].copy_from_slice(&self.data[self.pos..self.pos + n]);
        self.pos += n;
        Ok(n)
    }
}

fn io_roundtrip<M: Model + ?Sized>(name: &str, seeds: u64, max_msg: usize) {
    use flatty_io::{Receiver, Sender};
    for seed in 0..seeds {
        let mut rng = Rng::new(seed * 31 + 5);
        rng.max_items = 1 + rng.below(4);
        let mut wire: Vec<u8> = Vec::new();
        let mut sent: Vec<(String, usize)> = Vec::new();
        {
            let mut sender = Sender::<M, _>::io(&mut wire, max_msg);
            for _ in 0..(1 + rng.below(6)) {
                let desc = M::random_desc(&mut rng);
                let Ok(mut guard) = sender.alloc().unwrap().new_in_place(DE::<M>(&desc)) else { continue };
                rng.grow = rng.below(2) == 0;
                let mut broken = false;
                for _ in 0..rng.below(12) {
                    if !guard.mutate(&mut rng) && M::validate(guard.as_bytes()).is_err() {
                        broken = true; // known: torn value after a failed one-pass initialiser
                        break;
                    }
                }
                if broken {
                    continue;
                }
                sent.push((guard.content(), ceil(guard.used_end(), M::ALIGN)));
                guard.send().unwrap();
            }
        }
        let total: usize = sent.iter().map(|x| x.1).sum();
        assert_eq!(wire.len(), total, "{} seed {}: bytes on the wire vs sum of reference extents {:?}", name, seed, sent);
        let mut receiver = Receiver::<M, _>::io(
            Chunked {
                data: wire,
                pos: 0,
                rng: Rng::new(seed),
            },
            max_msg,
        );
        for (i, (content, extent)) in sent.iter().enumerate() {
            match receiver.recv() {
                Ok(guard) => {
                    assert_eq!(&guard.content(), content, "{} seed {} message {}", name, seed, i);
                    assert_eq!(guard.size(), *extent, "{} seed {} message {}", name, seed, i);
                }
                Err(e) => panic!("{} seed {} message {} of {:?}: {:?}", name, seed, i, sent, e),
            }
        }
        assert!(matches!(receiver.recv().err().unwrap(), flatty_io::RecvError::Closed), "{} seed {}", name, seed);
    }
}

#[test]
fn io_framing() {
    let n = if cfg!(miri) { 3 } else { 400 };
    io_roundtrip::<FlexVec<FlatVec<u8, u8>, u8>>("FlexVec<FlatVec<u8,u8>,u8>", n, 40);
    io_roundtrip::<FlexVec<FlatVec<u32, u16>, u8>>("FlexVec<FlatVec<u32,u16>,u8>", n, 64);
    io_roundtrip::<FlexVec<FlexVec<FlatVec<u8, u8>, u8>, u8>>("nested flex", n, 64);
    io_roundtrip::<FlexVec<UE3, u8>>("FlexVec<UE3,u8>", n, 96);
    io_roundtrip::<US5>("US5", n, 64);
    io_roundtrip::<US12>("US12", n, 64);
    io_roundtrip::<UE3>("UE3", n, 64);
    io_roundtrip::<UE7>("UE7", n, 64);
    io_roundtrip::<FlatVec<u64, u16>>("FlatVec<u64,u16>", n, 64);
    io_roundtrip::<FlatString<u32>>("FlatString<u32>", n, 32);
    io_roundtrip::<US10>("US10", n, 64);
}

// ---------------------------------------------------------------- over-aligned zero-sized fields in the middle

model_sized!([u128; 0]);

#[flat(sized = false)]
pub struct US14 {
    a: u8,
    z: [u128; 0],
    v: FlatVec<u8, u8>,
}
model_struct!(US14, US14Init, US14Desc { a: u8, z: [u128; 0], ; v: FlatVec<u8, u8> });
t!(us14, US14, 64);

#[flat(sized = false)]
pub struct US15 {
    a: u8,
    z: [u64; 0],
    s: FlatString<u8>,
}
model_struct!(US15, US15Init, US15Desc { a: u8, z: [u64; 0], ; s: FlatString<u8> });
t!(us15, US15, 40);

#[flat(sized = false)]
pub enum UE8 {
    V(u8, [u64; 0], FlatVec<u8, u8>),
    W([u128; 0]),
    X(FlexVec<FlatVec<u16, u8>, u8>),
}
#[derive(Clone, Debug)]
pub enum UE8Desc {
    V(u8, Vec<u8>),
    W,
    X(Vec<Vec<u16>>),
}
impl Model for UE8 {
    type Desc = UE8Desc;
    fn random_desc(rng: &mut Rng) -> UE8Desc {
        match rng.below(3) {
            0 => UE8Desc::V(Rand::rand(rng), <FlatVec<u8, u8>>::random_desc(rng)),
            1 => UE8Desc::W,
            _ => UE8Desc::X(<FlexVec<FlatVec<u16, u8>, u8>>::random_desc(rng)),
        }
    }
    unsafe fn emplace_desc<'a>(d: &UE8Desc, bytes: &'a mut [u8]) -> Result<&'a mut Self, Error> {
        match d {
            UE8Desc::V(a, v) => UE8InitV(DE::<u8>(a), DE::<[u64; 0]>(&[]), DE::<FlatVec<u8, u8>>(v)).emplace_unchecked(bytes),
            UE8Desc::W => UE8InitW(DE::<[u128; 0]>(&[])).emplace_unchecked(bytes),
            UE8Desc::X(f) => UE8InitX(DE::<FlexVec<FlatVec<u16, u8>, u8>>(f)).emplace_unchecked(bytes),
        }
    }
    fn content(&self) -> String {
        match self.as_ref() {
            UE8Ref::V(a, _, v) => format!("V({},{})", a, v.content()),
            UE8Ref::W(_) => "W".into(),
            UE8Ref::X(f) => format!("X({})", f.content()),
        }
    }
    fn used_end(&self) -> usize {
        match self.as_ref() {
            UE8Ref::V(_, _, v) => off(self, v) + v.used_end(),
            UE8Ref::W(_) => 1,
            UE8Ref::X(f) => off(self, f) + f.used_end(),
        }
    }
    fn mutate(&mut self, rng: &mut Rng) -> bool {
        if rng.below(4) == 0 {
            let d = Self::random_desc(rng);
            return self.assign_in_place(DE::<Self>(&d)).is_ok();
        }
        match self.as_mut() {
            UE8Mut::V(a, _, v) => {
                if rng.below(3) == 0 {
                    a.mutate(rng)
                } else {
                    v.mutate(rng)
                }
            }
            UE8Mut::W(_) => true,
            UE8Mut::X(f) => f.mutate(rng),
        }
    }
}
t!(ue8, UE8, 96);
t!(fx_ue8, FlexVec<UE8, u8>, 200);
