//! C07 / f1: the blocking sender never flushes its sink, so a message whose `send()` returned `Ok` does not
//! reach the receiver while the sender stays alive if the sink does any buffering of its own
//! (`std::io::BufWriter`, a TLS / compression writer ...). The async sender flushes after every message.
//!
//! Put this file into `io/tests/` and run `cargo test -p flatty-io --offline --test c07_f1_flush`.

use flatty::{flat, vec::FromIterator, FlatVec};
use flatty_io::{Receiver, RecvError, Sender};
use std::{
    cell::RefCell,
    io::{self, BufWriter, Read, Write},
    rc::Rc,
};

#[flat(sized = false, default = true)]
pub enum TestMsg {
    #[default]
    A,
    B(i32),
    C(FlatVec<i32, u16>),
}

/// A byte pipe: what is written at one end can be read at the other end.
#[derive(Clone, Default)]
struct Pipe(Rc<RefCell<Vec<u8>>>);

impl Write for Pipe {
    fn write(&mut self, buf: &[u8]) -> io::Result<usize> {
        self.0.borrow_mut().extend_from_slice(buf);
        Ok(buf.len())
    }
    fn flush(&mut self) -> io::Result<()> {
        Ok(())
    }
}
impl Read for Pipe {
    fn read(&mut self, buf: &mut [u8]) -> io::Result<usize> {
        let mut data = self.0.borrow_mut();
        if data.is_empty() {
            // The writer is still alive: a real pipe would block here forever.
            return Err(io::ErrorKind::WouldBlock.into());
        }
        let n = buf.len().min(data.len());
        buf[..n].copy_from_slice(&data[..n]);
        data.drain(..n);
        Ok(n)
    }
}

#[test]
fn sent_message_reaches_the_receiver_while_the_sender_is_alive() {
    let pipe = Pipe::default();

    // The usual way to wrap a socket / pipe / file for writing.
    let mut sender = Sender::<TestMsg, _>::io(BufWriter::new(pipe.clone()), 36);
    let mut receiver = Receiver::<TestMsg, _>::io(pipe.clone(), 36);

    sender
        .alloc()
        .unwrap()
        .new_in_place(TestMsgInitC(FromIterator(0..7)))
        .unwrap()
        .send()
        .unwrap();

    // `send()` returned `Ok`: the message has been sent; there is no other call on `Sender` to push it out.
    match receiver.recv() {
        Ok(msg) => match msg.as_ref() {
            TestMsgRef::C(v) => assert!(v.iter().copied().eq(0..7)),
            _ => panic!("wrong message"),
        },
        Err(RecvError::Read(e)) => panic!(
            "the sent message never reached the pipe ({} bytes in the pipe, reader would block: {:?})",
            pipe.0.borrow().len(),
            e
        ),
        Err(e) => panic!("{:?}", e),
    };

    drop(sender);
}

/// A sink that buffers what it accepts and forwards it on `flush()` (what the `Write` contract asks for;
/// nothing in the contract asks a writer to flush when it is dropped).
struct Buffering {
    held: Vec<u8>,
    pipe: Pipe,
}
impl Write for Buffering {
    fn write(&mut self, buf: &[u8]) -> io::Result<usize> {
        self.held.extend_from_slice(buf);
        Ok(buf.len())
    }
    fn flush(&mut self) -> io::Result<()> {
        self.pipe.write_all(&self.held)?;
        self.held.clear();
        self.pipe.flush()
    }
}

/// Source over the same pipe that reports end of stream when the pipe is empty (the sender is gone by then).
struct Closing(Pipe);
impl Read for Closing {
    fn read(&mut self, buf: &mut [u8]) -> io::Result<usize> {
        match self.0.read(buf) {
            Err(e) if e.kind() == io::ErrorKind::WouldBlock => Ok(0),
            other => other,
        }
    }
}

#[test]
fn whole_run_delivers_the_sent_sequence_before_closed() {
    let pipe = Pipe::default();
    let mut sender = Sender::<TestMsg, _>::io(
        Buffering {
            held: Vec::new(),
            pipe: pipe.clone(),
        },
        36,
    );
    for i in 0..3 {
        sender.alloc().unwrap().new_in_place(TestMsgInitB(i)).unwrap().send().unwrap();
    }
    drop(sender);

    let mut receiver = Receiver::<TestMsg, _>::io(Closing(pipe), 36);
    for i in 0..3 {
        match receiver.recv() {
            Ok(msg) => match msg.as_ref() {
                TestMsgRef::B(x) => assert_eq!(*x, i),
                _ => panic!("wrong message"),
            },
            Err(e) => panic!("message {} of 3 sent messages was not delivered: {:?}", i, e),
        }
    }
    assert!(matches!(receiver.recv().err().unwrap(), RecvError::Closed));
}
