//! FlatWrap over an inline (by-value) byte container: the alignment is checked at one address, the view is made at another.
use core::mem::MaybeUninit;
use flatty::{FlatVec, FlatWrap};
use stavec::GenericVec;

// Inline byte storage with alignment 2: `len: u16` at offset 0, the bytes at offset 2.
type Inline = GenericVec<[MaybeUninit<u8>; 12], flatty::portable::le::U32>;
type Wrap = FlatWrap<FlatVec<u32, u32>, Inline>;

#[repr(C, align(16))]
struct Place<const K: usize> {
    pad: [u8; K],
    wrap: Option<Wrap>,
}

fn addr_of_view(w: &Wrap) -> usize {
    // Deref -> &FlatVec<u32, u32>; only the address is looked at here.
    let v: &FlatVec<u32, u32> = &**w;
    v as *const FlatVec<u32, u32> as *const u8 as usize
}

// Different `K` give different stack layouts, so that the by-value argument of `from_wrapped_bytes`
// lands on an aligned address in at least one of them.
#[inline(never)]
fn attempt<const K: usize>() -> Option<Wrap> {
    let pad = std::hint::black_box([0u8; K]);
    let mut bytes = Inline::default();
    bytes.push_slice(&[1, 0, 0, 0, 7, 0, 0, 0, 0, 0, 0, 0]).unwrap();
    let r = Wrap::from_wrapped_bytes(bytes).ok();
    std::hint::black_box(&pad);
    r
}

#[test]
fn view_is_aligned_wherever_the_wrapper_lives() {
    assert_eq!(core::mem::align_of::<Wrap>(), 1);
    let wraps = [
        attempt::<0>(), attempt::<1>(), attempt::<2>(), attempt::<3>(),
        attempt::<4>(), attempt::<5>(), attempt::<6>(), attempt::<7>(),
    ];
    let mut accepted = 0;
    for wrap in wraps.into_iter().flatten() {
        accepted += 1;
        // The wrapper is an ordinary movable value. Put it at four addresses that differ modulo 4.
        let p0 = Place::<0> { pad: [], wrap: Some(wrap) };
        let a0 = addr_of_view(p0.wrap.as_ref().unwrap());
        let p1 = Place::<1> { pad: [0; 1], wrap: p0.wrap };
        let a1 = addr_of_view(p1.wrap.as_ref().unwrap());
        let p2 = Place::<2> { pad: [0; 2], wrap: p1.wrap };
        let a2 = addr_of_view(p2.wrap.as_ref().unwrap());
        let p3 = Place::<3> { pad: [0; 3], wrap: p2.wrap };
        let a3 = addr_of_view(p3.wrap.as_ref().unwrap());
        for a in [a0, a1, a2, a3] {
            assert_eq!(a % 4, 0, "FlatWrap handed out a &FlatVec<u32, u32> at the misaligned address {a:#x}");
        }
    }
    eprintln!("accepted = {accepted}");
}
