#![allow(dead_code, clippy::type_complexity)]
//! C14 model-based harness: every op reports the address ranges it is allowed to change,
//! the top level diffs the whole guarded arena against a snapshot.

use core::ops::Range;
use flatty::{
    flat, flex, prelude::*, string, vec,
    vec::Length,
    Error, FlatString, FlatVec, FlexVec,
};

pub struct Rng(u64);
impl Rng {
    pub fn new(seed: u64) -> Self {
        Rng(seed.wrapping_mul(0x9E3779B97F4A7C15) ^ 0xD1B54A32D192ED03)
    }
    pub fn next(&mut self) -> u64 {
        let mut x = self.0;
        x ^= x << 13;
        x ^= x >> 7;
        x ^= x << 17;
        self.0 = x;
        x.wrapping_mul(0x2545F4914F6CDD1D)
    }
    pub fn below(&mut self, n: usize) -> usize {
        if n == 0 {
            0
        } else {
            ((self.next() >> 33) as usize) % n
        }
    }
}

type Ranges = Vec<Range<usize>>;

fn bytes_range<T: FlatUnsized + ?Sized>(x: &T) -> Range<usize> {
    let b = x.as_bytes();
    let p = b.as_ptr() as usize;
    p..p + b.len()
}
fn val_range<T>(x: &T) -> Range<usize> {
    let p = x as *const T as usize;
    p..p + core::mem::size_of::<T>()
}
fn inside(inner: &Range<usize>, outer: &Range<usize>) -> bool {
    inner.start >= inner.end || (inner.start >= outer.start && inner.end <= outer.end)
}
fn all_inside(rs: &Ranges, outer: &Range<usize>, what: &str) {
    for r in rs {
        assert!(inside(r, outer), "{what}: allowed range {r:x?} escapes its owner {outer:x?}");
    }
}

pub trait Gen: Copy {
    fn gen(r: &mut Rng) -> Self;
}
impl Gen for u8 {
    fn gen(r: &mut Rng) -> Self {
        r.next() as u8
    }
}
impl Gen for u16 {
    fn gen(r: &mut Rng) -> Self {
        r.next() as u16
    }
}
impl Gen for u32 {
    fn gen(r: &mut Rng) -> Self {
        r.next() as u32
    }
}
impl Gen for u64 {
    fn gen(r: &mut Rng) -> Self {
        r.next()
    }
}
impl Gen for [u8; 3] {
    fn gen(r: &mut Rng) -> Self {
        let x = r.next();
        [x as u8, (x >> 8) as u8, (x >> 16) as u8]
    }
}
impl Gen for [u16; 3] {
    fn gen(r: &mut Rng) -> Self {
        let x = r.next();
        [x as u16, (x >> 16) as u16, (x >> 32) as u16]
    }
}

/// Something that can live in a FlexVec (or on its own) and be mutated; every method returns the ranges it may change.
pub trait Item: Flat {
    const KINDS: usize;
    fn push_into<L: Flat + Length>(v: &mut FlexVec<Self, L>, kind: usize, r: &mut Rng) -> Result<(), Error>;
    /// assign_in_place with the given kind of emplacer; returns allowed ranges (whole value when Ok or Err: one-pass initialisers are known).
    fn assign(&mut self, kind: usize, r: &mut Rng) -> Ranges;
    fn mutate(&mut self, r: &mut Rng) -> Ranges;
    fn new_at(bytes: &mut [u8], kind: usize, r: &mut Rng) -> Result<(), Error>;
    /// assign a whole FlexVec of Self from a FromIterator emplacer; None if not supported for the shape
    fn vec_from_iter<L: Flat + Length>(_v: &mut FlexVec<Self, L>, _r: &mut Rng) -> Option<bool> {
        None
    }
}

// ---------------------------------------------------------------- FlatVec

fn fv_len_range<T: Flat, L: Flat + Length>(v: &FlatVec<T, L>) -> Range<usize> {
    let p = v.as_bytes().as_ptr() as usize;
    p..p + L::SIZE
}
fn fv_elems<T: Flat, L: Flat + Length>(v: &FlatVec<T, L>, a: usize, b: usize) -> Range<usize> {
    let p = v.data().as_ptr() as usize;
    (p + a * T::SIZE)..(p + b * T::SIZE)
}

fn fv_mutate<T: Flat + Gen, L: Flat + Length>(v: &mut FlatVec<T, L>, r: &mut Rng) -> Ranges {
    let own = bytes_range(v);
    let len = v.len();
    let cap = v.capacity();
    assert!(len <= cap);
    assert!(inside(&fv_elems(v, 0, if T::SIZE == 0 { 0 } else { cap }), &own));
    let lr = fv_len_range(v);
    let out: Ranges = match r.below(12) {
        0 | 1 => {
            let ok = v.push(T::gen(r)).is_ok();
            assert_eq!(ok, len < cap);
            if ok {
                vec![lr, fv_elems(v, len, len + 1)]
            } else {
                vec![]
            }
        }
        2 => {
            let some = v.pop().is_some();
            if some {
                vec![lr]
            } else {
                vec![]
            }
        }
        3 => {
            let n = r.below(6);
            let xs: Vec<T> = (0..n).map(|_| T::gen(r)).collect();
            if v.push_slice(&xs).is_ok() {
                assert!(len + n <= cap);
                vec![lr, fv_elems(v, len, len + n)]
            } else {
                assert!(len + n > cap);
                vec![]
            }
        }
        4 => {
            let k = r.below(len + 2);
            v.truncate(k);
            if k < len {
                vec![lr]
            } else {
                vec![]
            }
        }
        5 => {
            if len > 0 {
                let i = r.below(len);
                v[i] = T::gen(r);
                vec![fv_elems(v, i, i + 1)]
            } else {
                vec![]
            }
        }
        6 => {
            let n = r.below(8);
            let xs: Vec<T> = (0..n).map(|_| T::gen(r)).collect();
            v.extend_until_full(xs);
            vec![lr, fv_elems(v, len, core::cmp::min(cap, len + n))]
        }
        7 => {
            if len > 0 {
                let i = r.below(len);
                if r.below(2) == 0 {
                    v.remove(i);
                    vec![lr, fv_elems(v, i, len)]
                } else {
                    v.swap_remove(i);
                    vec![lr, fv_elems(v, i, i + 1)]
                }
            } else {
                vec![]
            }
        }
        8 => {
            let res = match r.below(4) {
                0 => v.assign_in_place(vec::FromArray::<T, 0>([])).map(|_| 0),
                1 => v.assign_in_place(vec::FromArray([T::gen(r)])).map(|_| 1),
                2 => v.assign_in_place(vec::FromArray([T::gen(r), T::gen(r), T::gen(r)])).map(|_| 3),
                _ => v.assign_in_place(vec::FromArray([T::gen(r); 7])).map(|_| 7),
            };
            match res {
                Ok(n) => {
                    assert!(n <= cap);
                    vec![lr, fv_elems(v, 0, n)]
                }
                // "A valid target is left as it is."
                Err(_) => vec![],
            }
        }
        9 => {
            let n = r.below(9);
            let xs: Vec<T> = (0..n).map(|_| T::gen(r)).collect();
            let _ = v.assign_in_place(vec::FromIterator(xs.into_iter()));
            vec![lr, fv_elems(v, 0, core::cmp::min(n, cap))]
        }
        10 => {
            v.assign_in_place(vec::Empty).unwrap();
            vec![lr]
        }
        _ => {
            let n = r.below(cap + 1);
            let x = T::gen(r);
            v.resize(n, x);
            vec![lr, fv_elems(v, len, core::cmp::max(len, n))]
        }
    };
    all_inside(&out, &own, "FlatVec");
    out
}

macro_rules! impl_item_flatvec {
    ($t:ty, $l:ty) => {
        impl Item for FlatVec<$t, $l> {
            const KINDS: usize = 4;
            fn push_into<L: Flat + Length>(v: &mut FlexVec<Self, L>, kind: usize, r: &mut Rng) -> Result<(), Error> {
                match kind {
                    0 => v.push(vec::Empty).map(|_| ()),
                    1 => v.push(vec::FromArray([<$t>::gen(r)])).map(|_| ()),
                    2 => v.push(vec::FromArray([<$t>::gen(r); 5])).map(|_| ()),
                    _ => {
                        let n = r.below(7);
                        let xs: Vec<$t> = (0..n).map(|_| <$t>::gen(r)).collect();
                        v.push(vec::FromIterator(xs.into_iter())).map(|_| ())
                    }
                }
            }
            fn assign(&mut self, _kind: usize, r: &mut Rng) -> Ranges {
                fv_mutate(self, r)
            }
            fn mutate(&mut self, r: &mut Rng) -> Ranges {
                fv_mutate(self, r)
            }
            fn new_at(bytes: &mut [u8], kind: usize, r: &mut Rng) -> Result<(), Error> {
                match kind {
                    0 => Self::new_in_place(bytes, vec::Empty).map(|_| ()),
                    1 => Self::new_in_place(bytes, vec::FromArray([<$t>::gen(r)])).map(|_| ()),
                    2 => Self::new_in_place(bytes, vec::FromArray([<$t>::gen(r); 5])).map(|_| ()),
                    _ => {
                        let n = r.below(7);
                        let xs: Vec<$t> = (0..n).map(|_| <$t>::gen(r)).collect();
                        Self::new_in_place(bytes, vec::FromIterator(xs.into_iter())).map(|_| ())
                    }
                }
            }
        }
    };
}
impl_item_flatvec!(u8, u8);
impl_item_flatvec!(u8, u16);
impl_item_flatvec!(u8, u32);
impl_item_flatvec!(u16, u8);
impl_item_flatvec!(u32, u16);
impl_item_flatvec!(u32, u8);
impl_item_flatvec!(u64, u8);
impl_item_flatvec!([u8; 3], u16);
impl_item_flatvec!([u8; 3], u32);
impl_item_flatvec!([u16; 3], u8);

// ---------------------------------------------------------------- FlatString

fn fs_mutate<L: Flat + Length>(s: &mut FlatString<L>, r: &mut Rng) -> Ranges {
    let own = bytes_range(s);
    let p = own.start;
    let len = s.len();
    let cap = s.capacity();
    let lr = p..p + L::SIZE;
    let d = |a: usize, b: usize| (p + L::SIZE + a)..(p + L::SIZE + b);
    assert!(inside(&d(0, cap), &own));
    const STRS: [&str; 6] = ["", "a", "bc", "d\u{e9}f", "\u{20ac}uro!", "0123456789abcdef"];
    let out: Ranges = match r.below(6) {
        0 => {
            let c = ['x', '\u{e9}', '\u{20ac}', '\u{1F600}'][r.below(4)];
            if s.push(c).is_ok() {
                vec![lr, d(len, len + c.len_utf8())]
            } else {
                vec![]
            }
        }
        1 => {
            let t = STRS[r.below(STRS.len())];
            if s.push_str(t).is_ok() {
                vec![lr, d(len, len + t.len())]
            } else {
                vec![]
            }
        }
        2 => {
            s.clear();
            vec![lr]
        }
        3 => {
            let t = STRS[r.below(STRS.len())];
            match s.assign_in_place(string::FromStr(t)) {
                Ok(_) => vec![lr, d(0, t.len())],
                Err(_) => vec![],
            }
        }
        4 => {
            s.as_mut_str().make_ascii_uppercase();
            vec![d(0, len)]
        }
        _ => {
            s.assign_in_place(string::Empty).unwrap();
            vec![lr]
        }
    };
    all_inside(&out, &own, "FlatString");
    out
}

macro_rules! impl_item_flatstring {
    ($l:ty) => {
        impl Item for FlatString<$l> {
            const KINDS: usize = 3;
            fn push_into<L: Flat + Length>(v: &mut FlexVec<Self, L>, kind: usize, _r: &mut Rng) -> Result<(), Error> {
                match kind {
                    0 => v.push(string::Empty).map(|_| ()),
                    1 => v.push(string::FromStr("ab")).map(|_| ()),
                    _ => v.push(string::FromStr("hello, w\u{f6}rld")).map(|_| ()),
                }
            }
            fn assign(&mut self, _kind: usize, r: &mut Rng) -> Ranges {
                fs_mutate(self, r)
            }
            fn mutate(&mut self, r: &mut Rng) -> Ranges {
                fs_mutate(self, r)
            }
            fn new_at(bytes: &mut [u8], kind: usize, _r: &mut Rng) -> Result<(), Error> {
                match kind {
                    0 => Self::new_in_place(bytes, string::Empty).map(|_| ()),
                    1 => Self::new_in_place(bytes, string::FromStr("ab")).map(|_| ()),
                    _ => Self::new_in_place(bytes, string::FromStr("hello, w\u{f6}rld")).map(|_| ()),
                }
            }
        }
    };
}
impl_item_flatstring!(u8);
impl_item_flatstring!(u16);
impl_item_flatstring!(u32);

// ---------------------------------------------------------------- FlexVec (generic step, also an Item itself)

struct Layout {
    own: Range<usize>,
    /// payload address ranges of the items (as the views see them)
    items: Vec<Range<usize>>,
    /// used size of every item (from `size()`)
    sizes: Vec<usize>,
    size: usize,
}

fn fx_layout<T: Item + ?Sized, L: Flat + Length>(v: &FlexVec<T, L>) -> Layout {
    let own = bytes_range(v);
    let items: Vec<_> = v.iter().map(|x| bytes_range(x)).collect();
    let sizes: Vec<_> = v.iter().map(|x| x.size()).collect();
    let osz = flatty::utils::ceil_mul(L::SIZE, T::ALIGN);
    let mut prev_end = own.start;
    for (i, it) in items.iter().enumerate() {
        assert!(inside(it, &own), "item {i} view {it:x?} escapes the vector {own:x?}");
        assert!(it.start >= prev_end + osz, "item {i} view overlaps its predecessor / slot");
        assert!(sizes[i] <= it.end - it.start, "item {i}: size() exceeds its view");
        prev_end = it.end;
    }
    let size = v.size();
    assert!(size <= own.end - own.start, "FlexVec::size() exceeds the view");
    Layout { own, items, sizes, size }
}

fn fx_step<T: Item + ?Sized, L: Flat + Length>(v: &mut FlexVec<T, L>, r: &mut Rng) -> Ranges {
    let osz = flatty::utils::ceil_mul(L::SIZE, T::ALIGN);
    let lay = fx_layout(v);
    let n = lay.items.len();
    assert_eq!(n, v.len());
    let slot = |i: usize| -> Range<usize> {
        // slot of item i (or of the terminator when i == n)
        let s = if i < n {
            lay.items[i].start - osz
        } else if n == 0 {
            lay.own.start
        } else {
            // terminator follows the last sealed item; only meaningful if there is one
            lay.own.start + lay.size - osz
        };
        s..s + L::SIZE
    };
    // first byte after the used part of the last item
    let tail_start = if n == 0 {
        lay.own.start
    } else {
        lay.items[n - 1].start + lay.sizes[n - 1]
    };
    let op = r.below(11);
    if std::env::var("C14_TRACE").is_ok() {
        eprintln!("  fx_step<{}> n={} op={} own={:x?} size={}", core::any::type_name::<T>(), n, op, lay.own, lay.size);
    }
    let out: Ranges = match op {
        10 => {
            match T::vec_from_iter(v, r) {
                Some(_) => vec![lay.own.clone()],
                None => vec![],
            }
        }
        0 | 1 | 2 => {
            let kind = r.below(T::KINDS);
            let res = T::push_into(v, kind, r);
            let tail = tail_start..lay.own.end;
            if res.is_ok() {
                assert_eq!(v.len(), n + 1);
                if n > 0 {
                    vec![slot(n - 1), tail]
                } else {
                    vec![tail]
                }
            } else {
                // "a refused push leaves the vector unchanged": only the free tail may have been scribbled on
                assert_eq!(v.len(), n);
                vec![tail]
            }
        }
        3 => {
            let res = v.pop();
            assert_eq!(res.is_ok(), n > 0);
            if n > 0 {
                assert_eq!(v.len(), n - 1);
                vec![slot(n - 1)]
            } else {
                vec![]
            }
        }
        4 => {
            let k = r.below(n + 2);
            v.truncate(k);
            assert_eq!(v.len(), core::cmp::min(k, n));
            if k < n {
                vec![slot(k)]
            } else {
                vec![]
            }
        }
        5 | 6 | 7 => {
            if n > 0 {
                let i = r.below(n);
                let it = v.iter_mut().nth(i).unwrap();
                assert_eq!(bytes_range(it), lay.items[i]);
                let rs = it.mutate(r);
                all_inside(&rs, &lay.items[i], "FlexVec item mutate");
                rs
            } else {
                vec![]
            }
        }
        8 => {
            if n > 0 {
                let i = r.below(n);
                let kind = r.below(T::KINDS);
                let it = v.iter_mut().nth(i).unwrap();
                if std::env::var("C14_TRACE").is_ok() {
                    eprintln!("   assign item {i} kind {kind} range {:x?} size {}", bytes_range(it), it.size());
                }
                let rs = it.assign(kind, r);
                all_inside(&rs, &lay.items[i], "FlexVec item assign");
                rs
            } else {
                vec![]
            }
        }
        _ => {
            // mutate two different items through one iter_mut pass
            if n > 1 {
                let a = r.below(n - 1);
                let mut rs = vec![];
                for (i, it) in v.iter_mut().enumerate() {
                    if i == a || i == n - 1 {
                        let x = it.mutate(r);
                        all_inside(&x, &lay.items[i], "FlexVec item mutate (pass)");
                        rs.extend(x);
                    }
                }
                rs
            } else {
                vec![]
            }
        }
    };
    all_inside(&out, &lay.own, "FlexVec");
    // layout after: still consistent
    let _ = fx_layout(v);
    out
}

struct KindIter<'a, T: Item + ?Sized> {
    left: usize,
    r: &'a mut Rng,
    _p: core::marker::PhantomData<T>,
}

impl<T: Item + ?Sized, L: Flat + Length> Item for FlexVec<T, L> {
    const KINDS: usize = 3;
    fn push_into<M: Flat + Length>(v: &mut FlexVec<Self, M>, kind: usize, r: &mut Rng) -> Result<(), Error> {
        let item = v.push(flex::Empty)?;
        for _ in 0..kind {
            let k = r.below(T::KINDS);
            let _ = T::push_into(item, k, r);
        }
        Ok(())
    }
    fn assign(&mut self, _kind: usize, _r: &mut Rng) -> Ranges {
        let own = bytes_range(self);
        self.assign_in_place(flex::Empty).unwrap();
        vec![own.start..own.start + L::SIZE]
    }
    fn mutate(&mut self, r: &mut Rng) -> Ranges {
        fx_step(self, r)
    }
    fn new_at(bytes: &mut [u8], kind: usize, r: &mut Rng) -> Result<(), Error> {
        let v = Self::new_in_place(bytes, flex::Empty)?;
        for _ in 0..kind {
            let k = r.below(T::KINDS);
            let _ = T::push_into(v, k, r);
        }
        Ok(())
    }
}

// ---------------------------------------------------------------- generated types

#[flat(sized = false, default = true)]
pub enum E4 {
    #[default]
    A,
    B(u8, u16),
    C { a: u32, v: FlatVec<u8, u16> },
    D(FlatVec<u16, u8>),
}

impl Item for E4 {
    const KINDS: usize = 5;
    fn push_into<L: Flat + Length>(v: &mut FlexVec<Self, L>, kind: usize, r: &mut Rng) -> Result<(), Error> {
        match kind {
            0 => v.push(E4InitA).map(|_| ()),
            1 => v.push(E4InitB(r.next() as u8, r.next() as u16)).map(|_| ()),
            2 => v.push(E4InitC { a: r.next() as u32, v: vec::Empty }).map(|_| ()),
            3 => v
                .push(E4InitC {
                    a: r.next() as u32,
                    v: vec::FromArray([1u8, 2, 3]),
                })
                .map(|_| ()),
            _ => v.push(E4InitD(vec::FromArray([r.next() as u16; 2]))).map(|_| ()),
        }
    }
    fn assign(&mut self, kind: usize, r: &mut Rng) -> Ranges {
        let own = bytes_range(self);
        let _ = match kind {
            0 => self.assign_in_place(E4InitA).map(|_| ()),
            1 => self.assign_in_place(E4InitB(r.next() as u8, r.next() as u16)).map(|_| ()),
            2 => self.assign_in_place(E4InitC { a: r.next() as u32, v: vec::Empty }).map(|_| ()),
            3 => self
                .assign_in_place(E4InitC {
                    a: r.next() as u32,
                    v: vec::FromArray([1u8, 2, 3]),
                })
                .map(|_| ()),
            _ => self.assign_in_place(E4InitD(vec::FromArray([r.next() as u16; 2]))).map(|_| ()),
        };
        vec![own]
    }
    fn mutate(&mut self, r: &mut Rng) -> Ranges {
        let own = bytes_range(self);
        let out = match self.as_mut() {
            E4Mut::A => vec![],
            E4Mut::B(x, y) => {
                if r.below(2) == 0 {
                    *x = r.next() as u8;
                    vec![val_range(x)]
                } else {
                    *y = r.next() as u16;
                    vec![val_range(y)]
                }
            }
            E4Mut::C { a, v } => {
                if r.below(4) == 0 {
                    *a = r.next() as u32;
                    vec![val_range(a)]
                } else {
                    fv_mutate(v, r)
                }
            }
            E4Mut::D(v) => fv_mutate(v, r),
        };
        all_inside(&out, &own, "E4");
        out
    }
    fn new_at(bytes: &mut [u8], kind: usize, r: &mut Rng) -> Result<(), Error> {
        match kind {
            0 => Self::new_in_place(bytes, E4InitA).map(|_| ()),
            1 => Self::new_in_place(bytes, E4InitB(r.next() as u8, r.next() as u16)).map(|_| ()),
            2 => Self::new_in_place(bytes, E4InitC { a: 7, v: vec::Empty }).map(|_| ()),
            3 => Self::new_in_place(
                bytes,
                E4InitC {
                    a: 9,
                    v: vec::FromArray([1u8, 2, 3]),
                },
            )
            .map(|_| ()),
            _ => Self::new_in_place(bytes, E4InitD(vec::FromArray([5u16; 2]))).map(|_| ()),
        }
    }
}

#[flat(sized = false, default = true)]
pub enum E1 {
    #[default]
    A,
    V(FlatVec<u8, u8>),
    S(FlatString<u8>),
    P(u8, u8, u8),
    W(u8, FlatVec<[u8; 3], u8>),
}

impl Item for E1 {
    const KINDS: usize = 5;
    fn push_into<L: Flat + Length>(v: &mut FlexVec<Self, L>, kind: usize, r: &mut Rng) -> Result<(), Error> {
        match kind {
            0 => v.push(E1InitA).map(|_| ()),
            1 => v.push(E1InitV(vec::FromArray([r.next() as u8; 2]))).map(|_| ()),
            2 => v.push(E1InitS(string::FromStr("xyz"))).map(|_| ()),
            3 => v.push(E1InitP(1, 2, 3)).map(|_| ()),
            _ => v.push(E1InitW(9, vec::FromArray([[1u8, 2, 3]]))).map(|_| ()),
        }
    }
    fn assign(&mut self, kind: usize, r: &mut Rng) -> Ranges {
        let own = bytes_range(self);
        let _ = match kind {
            0 => self.assign_in_place(E1InitA).map(|_| ()),
            1 => self.assign_in_place(E1InitV(vec::FromArray([r.next() as u8; 2]))).map(|_| ()),
            2 => self.assign_in_place(E1InitS(string::FromStr("xyz"))).map(|_| ()),
            3 => self.assign_in_place(E1InitP(1, 2, 3)).map(|_| ()),
            _ => self.assign_in_place(E1InitW(9, vec::FromArray([[1u8, 2, 3]]))).map(|_| ()),
        };
        vec![own]
    }
    fn mutate(&mut self, r: &mut Rng) -> Ranges {
        let own = bytes_range(self);
        let out = match self.as_mut() {
            E1Mut::A => vec![],
            E1Mut::V(v) => fv_mutate(v, r),
            E1Mut::S(s) => fs_mutate(s, r),
            E1Mut::P(a, b, c) => {
                let t = [a, b, c];
                let i = r.below(3);
                let x = r.next() as u8;
                let mut out = vec![];
                for (j, p) in t.into_iter().enumerate() {
                    if i == j {
                        *p = x;
                        out.push(val_range(p));
                    }
                }
                out
            }
            E1Mut::W(a, v) => {
                if r.below(4) == 0 {
                    *a = r.next() as u8;
                    vec![val_range(a)]
                } else {
                    fv_mutate(v, r)
                }
            }
        };
        all_inside(&out, &own, "E1");
        out
    }
    fn new_at(bytes: &mut [u8], kind: usize, _r: &mut Rng) -> Result<(), Error> {
        match kind {
            0 => Self::new_in_place(bytes, E1InitA).map(|_| ()),
            1 => Self::new_in_place(bytes, E1InitV(vec::FromArray([4u8; 2]))).map(|_| ()),
            2 => Self::new_in_place(bytes, E1InitS(string::FromStr("xyz"))).map(|_| ()),
            3 => Self::new_in_place(bytes, E1InitP(1, 2, 3)).map(|_| ()),
            _ => Self::new_in_place(bytes, E1InitW(9, vec::FromArray([[1u8, 2, 3]]))).map(|_| ()),
        }
    }
}

#[flat(sized = false, default = true, tag_type = "u16")]
pub enum E8 {
    #[default]
    A,
    Q(u64),
    V(u8, FlatVec<u64, u8>),
    X(FlexVec<FlatVec<u8, u8>, u8>),
    Y(u16, FlexVec<E1, u16>),
}

impl Item for E8 {
    const KINDS: usize = 5;
    fn push_into<L: Flat + Length>(v: &mut FlexVec<Self, L>, kind: usize, r: &mut Rng) -> Result<(), Error> {
        match kind {
            0 => v.push(E8InitA).map(|_| ()),
            1 => v.push(E8InitQ(r.next())).map(|_| ()),
            2 => v.push(E8InitV(r.next() as u8, vec::FromArray([r.next()]))).map(|_| ()),
            3 => v.push(E8InitX(flex::Empty)).map(|_| ()),
            _ => v.push(E8InitY(r.next() as u16, flex::Empty)).map(|_| ()),
        }
    }
    fn assign(&mut self, kind: usize, r: &mut Rng) -> Ranges {
        let own = bytes_range(self);
        let _ = match kind {
            0 => self.assign_in_place(E8InitA).map(|_| ()),
            1 => self.assign_in_place(E8InitQ(r.next())).map(|_| ()),
            2 => self.assign_in_place(E8InitV(r.next() as u8, vec::FromArray([r.next()]))).map(|_| ()),
            3 => self.assign_in_place(E8InitX(flex::Empty)).map(|_| ()),
            _ => self.assign_in_place(E8InitY(r.next() as u16, flex::Empty)).map(|_| ()),
        };
        vec![own]
    }
    fn mutate(&mut self, r: &mut Rng) -> Ranges {
        let own = bytes_range(self);
        let out = match self.as_mut() {
            E8Mut::A => vec![],
            E8Mut::Q(q) => {
                *q = r.next();
                vec![val_range(q)]
            }
            E8Mut::V(a, v) => {
                if r.below(4) == 0 {
                    *a = r.next() as u8;
                    vec![val_range(a)]
                } else {
                    fv_mutate(v, r)
                }
            }
            E8Mut::X(x) => fx_step(x, r),
            E8Mut::Y(a, y) => {
                if r.below(6) == 0 {
                    *a = r.next() as u16;
                    vec![val_range(a)]
                } else {
                    fx_step(y, r)
                }
            }
        };
        all_inside(&out, &own, "E8");
        out
    }
    fn new_at(bytes: &mut [u8], kind: usize, r: &mut Rng) -> Result<(), Error> {
        match kind {
            0 => Self::new_in_place(bytes, E8InitA).map(|_| ()),
            1 => Self::new_in_place(bytes, E8InitQ(r.next())).map(|_| ()),
            2 => Self::new_in_place(bytes, E8InitV(3, vec::FromArray([r.next()]))).map(|_| ()),
            3 => Self::new_in_place(bytes, E8InitX(flex::Empty)).map(|_| ()),
            _ => Self::new_in_place(bytes, E8InitY(1, flex::Empty)).map(|_| ()),
        }
    }
}

/// unsized struct with an unsized enum tail
#[flat(sized = false, default = true)]
pub struct S4 {
    a: u8,
    b: u16,
    e: E4,
}

impl Item for S4 {
    const KINDS: usize = 3;
    fn push_into<L: Flat + Length>(v: &mut FlexVec<Self, L>, kind: usize, r: &mut Rng) -> Result<(), Error> {
        match kind {
            0 => v.push(S4Init { a: 1u8, b: 2u16, e: E4InitA }).map(|_| ()),
            1 => v
                .push(S4Init {
                    a: r.next() as u8,
                    b: 2u16,
                    e: E4InitD(vec::FromArray([7u16])),
                })
                .map(|_| ()),
            _ => v
                .push(S4Init {
                    a: r.next() as u8,
                    b: 2u16,
                    e: E4InitC {
                        a: 5u32,
                        v: vec::FromArray([1u8, 2, 3, 4, 5]),
                    },
                })
                .map(|_| ()),
        }
    }
    fn assign(&mut self, kind: usize, r: &mut Rng) -> Ranges {
        let own = bytes_range(self);
        let _ = match kind {
            0 => self.assign_in_place(S4Init { a: 1u8, b: 2u16, e: E4InitA }).map(|_| ()),
            1 => self
                .assign_in_place(S4Init {
                    a: r.next() as u8,
                    b: 2u16,
                    e: E4InitD(vec::FromArray([7u16])),
                })
                .map(|_| ()),
            _ => self
                .assign_in_place(S4Init {
                    a: r.next() as u8,
                    b: 2u16,
                    e: E4InitC {
                        a: 5u32,
                        v: vec::FromArray([1u8, 2, 3, 4, 5]),
                    },
                })
                .map(|_| ()),
        };
        vec![own]
    }
    fn mutate(&mut self, r: &mut Rng) -> Ranges {
        let own = bytes_range(self);
        let out = match r.below(5) {
            0 => {
                self.a = r.next() as u8;
                vec![val_range(&self.a)]
            }
            1 => {
                self.b = r.next() as u16;
                vec![val_range(&self.b)]
            }
            2 => {
                let k = r.below(E4::KINDS);
                let er = bytes_range(&self.e);
                let rs = self.e.assign(k, r);
                all_inside(&rs, &er, "S4.e assign");
                rs
            }
            _ => self.e.mutate(r),
        };
        all_inside(&out, &own, "S4");
        out
    }
    fn new_at(bytes: &mut [u8], kind: usize, _r: &mut Rng) -> Result<(), Error> {
        match kind {
            0 => Self::new_in_place(bytes, S4Init { a: 1u8, b: 2u16, e: E4InitA }).map(|_| ()),
            1 => Self::new_in_place(
                bytes,
                S4Init {
                    a: 3u8,
                    b: 2u16,
                    e: E4InitD(vec::FromArray([7u16])),
                },
            )
            .map(|_| ()),
            _ => Self::new_in_place(
                bytes,
                S4Init {
                    a: 3u8,
                    b: 2u16,
                    e: E4InitC {
                        a: 5u32,
                        v: vec::FromArray([1u8, 2, 3, 4, 5]),
                    },
                },
            )
            .map(|_| ()),
        }
    }
}

/// unsized struct with a FlexVec tail of unsized enums, u64 head
#[flat(sized = false, default = true)]
pub struct SX {
    h: u64,
    k: u8,
    x: FlexVec<E4, u16>,
}

impl Item for SX {
    const KINDS: usize = 2;
    fn push_into<L: Flat + Length>(v: &mut FlexVec<Self, L>, kind: usize, r: &mut Rng) -> Result<(), Error> {
        let it = v.push(SXInit {
            h: r.next(),
            k: 1u8,
            x: flex::Empty,
        })?;
        for _ in 0..kind {
            let k = r.below(E4::KINDS);
            let _ = E4::push_into(&mut it.x, k, r);
        }
        Ok(())
    }
    fn assign(&mut self, _kind: usize, r: &mut Rng) -> Ranges {
        let own = bytes_range(self);
        let _ = self.assign_in_place(SXInit {
            h: r.next(),
            k: 1u8,
            x: flex::Empty,
        });
        vec![own]
    }
    fn mutate(&mut self, r: &mut Rng) -> Ranges {
        let own = bytes_range(self);
        let out = match r.below(6) {
            0 => {
                self.h = r.next();
                vec![val_range(&self.h)]
            }
            1 => {
                self.k = r.next() as u8;
                vec![val_range(&self.k)]
            }
            _ => fx_step(&mut self.x, r),
        };
        all_inside(&out, &own, "SX");
        out
    }
    fn new_at(bytes: &mut [u8], kind: usize, r: &mut Rng) -> Result<(), Error> {
        let it = Self::new_in_place(
            bytes,
            SXInit {
                h: r.next(),
                k: 1u8,
                x: flex::Empty,
            },
        )?;
        for _ in 0..kind {
            let k = r.below(E4::KINDS);
            let _ = E4::push_into(&mut it.x, k, r);
        }
        Ok(())
    }
}

// ---------------------------------------------------------------- driver

fn diff(a: &[u8], b: &[u8]) -> Vec<usize> {
    a.iter().zip(b.iter()).enumerate().filter(|(_, (x, y))| x != y).map(|(i, _)| i).collect()
}

/// Run a history on a stand-alone value of type `T` placed at `misalign` inside a guarded arena, slice length `len`.
pub fn run_value<T: Item + ?Sized>(seed: u64, len: usize, misalign: usize, steps: usize) -> usize {
    const GUARD: usize = 48;
    let mut r = Rng::new(seed);
    let total = GUARD + misalign + len + GUARD + 64;
    let mut buf = vec![0u8; total];
    let fill = std::env::var("C14_FILL").unwrap_or_default();
    for b in buf.iter_mut() {
        *b = match fill.as_str() {
            "zero" => 0,
            "ff" => 0xff,
            "one" => 1,
            _ => r.next() as u8,
        };
    }
    let base = buf.as_ptr() as usize;
    let pad = (64 - base % 64) % 64;
    let off = pad + GUARD - (GUARD % 16) + misalign; // 64-aligned + 32 + misalign
    assert!(off + len + GUARD <= total);
    assert_eq!((base + off) % T::ALIGN, 0, "misalign must be a multiple of the type alignment");

    let mut done = 0;
    // construct
    let mut snap = buf.clone();
    let kind = r.below(T::KINDS);
    let res = T::new_at(&mut buf[off..off + len], kind, &mut r);
    for i in diff(&snap, &buf) {
        assert!(i >= off && i < off + len, "construction (kind {kind}, ok={}) wrote at arena index {i}, slice is {off}..{}", res.is_ok(), off + len);
    }
    if res.is_err() {
        return 0;
    }
    for step in 0..steps {
        if std::env::var("C14_TRACE").is_ok() {
            eprintln!(" step {step} len {len} off {off}");
        }
        snap.copy_from_slice(&buf);
        let addr0 = buf.as_ptr() as usize;
        let allowed: Ranges = {
            let slice = &mut buf[off..off + len];
            let slice_range = (addr0 + off)..(addr0 + off + len);
            let v = match T::from_mut_bytes(slice) {
                Ok(v) => v,
                Err(e) => panic!("seed {seed} len {len} step {step}: value no longer valid: {e:?}"),
            };
            let own = bytes_range(v);
            assert!(inside(&own, &slice_range), "view {own:x?} escapes the slice {slice_range:x?}");
            let rs = if r.below(8) == 0 {
                let k = r.below(T::KINDS);
                v.assign(k, &mut r)
            } else {
                v.mutate(&mut r)
            };
            all_inside(&rs, &own, "top");
            rs
        };
        for i in diff(&snap, &buf) {
            let a = addr0 + i;
            assert!(
                allowed.iter().any(|rg| rg.contains(&a)),
                "seed {seed} len {len} misalign {misalign} step {step}: byte at arena index {i} (slice {off}..{}, rel {}) changed {:#x} -> {:#x}, allowed (rel) {:?}",
                off + len,
                i as isize - off as isize,
                snap[i],
                buf[i],
                allowed.iter().map(|rg| (rg.start as isize - (addr0 + off) as isize)..(rg.end as isize - (addr0 + off) as isize)).collect::<Vec<_>>()
            );
        }
        done += 1;
    }
    done
}

fn sweep<T: Item + ?Sized>(name: &str, seeds: u64, max_len: usize, steps: usize) {
    let mut total = 0usize;
    let mut runs = 0usize;
    let lo: u64 = std::env::var("C14_FROM").ok().and_then(|s| s.parse().ok()).unwrap_or(0);
    for seed in lo..seeds {
        if std::env::var("C14_TRACE").is_ok() {
            eprintln!("seed {seed}");
        }
        let mut r = Rng::new(seed ^ 0xABCDEF);
        let len = r.below(max_len + 1);
        let misalign = T::ALIGN * r.below(64 / T::ALIGN);
        total += run_value::<T>(seed, len, misalign % 64, steps);
        runs += 1;
    }
    eprintln!("{name}: {runs} runs, {total} checked steps");
}

fn seeds() -> u64 {
    std::env::var("C14_SEEDS").ok().and_then(|s| s.parse().ok()).unwrap_or(300)
}
fn steps() -> usize {
    std::env::var("C14_STEPS").ok().and_then(|s| s.parse().ok()).unwrap_or(60)
}

macro_rules! sweep_test {
    ($name:ident, $t:ty, $max:expr) => {
        #[test]
        fn $name() {
            sweep::<$t>(stringify!($t), seeds(), $max, steps());
        }
    };
}

sweep_test!(flex_e4_u8, FlexVec<E4, u8>, 120);
sweep_test!(flex_e4_u16, FlexVec<E4, u16>, 160);
sweep_test!(flex_e4_u64, FlexVec<E4, u64>, 200);
sweep_test!(flex_e1_u8, FlexVec<E1, u8>, 90);
sweep_test!(flex_e1_u16, FlexVec<E1, u16>, 120);
sweep_test!(flex_e1_u32, FlexVec<E1, u32>, 120);
sweep_test!(flex_e8_u8, FlexVec<E8, u8>, 250);
sweep_test!(flex_e8_u16, FlexVec<E8, u16>, 300);
sweep_test!(flex_s4_u16, FlexVec<S4, u16>, 200);
sweep_test!(flex_s4_u8, FlexVec<S4, u8>, 200);
sweep_test!(flex_sx_u16, FlexVec<SX, u16>, 300);
sweep_test!(flex_flex_e4, FlexVec<FlexVec<E4, u8>, u16>, 300);
sweep_test!(flex_flex_flex, FlexVec<FlexVec<FlexVec<FlatVec<u8, u8>, u8>, u8>, u8>, 200);
sweep_test!(flex_fv_u8u8, FlexVec<FlatVec<u8, u8>, u8>, 80);
sweep_test!(flex_fv_u16u8_u8, FlexVec<FlatVec<u16, u8>, u8>, 80);
sweep_test!(flex_fv_u32u16_u8, FlexVec<FlatVec<u32, u16>, u8>, 120);
sweep_test!(flex_fv_a3_u32, FlexVec<FlatVec<[u8; 3], u32>, u16>, 120);
sweep_test!(flex_fv_a3_u16, FlexVec<FlatVec<[u8; 3], u16>, u8>, 120);
sweep_test!(flex_fv_h3, FlexVec<FlatVec<[u16; 3], u8>, u32>, 120);
sweep_test!(flex_fv_u64, FlexVec<FlatVec<u64, u8>, u16>, 200);
sweep_test!(flex_fs_u8, FlexVec<FlatString<u8>, u8>, 80);
sweep_test!(flex_fs_u16, FlexVec<FlatString<u16>, u8>, 80);
sweep_test!(flex_fs_u32, FlexVec<FlatString<u32>, u16>, 120);
sweep_test!(top_e4, E4, 60);
sweep_test!(top_e1, E1, 40);
sweep_test!(top_e8, E8, 200);
sweep_test!(top_s4, S4, 60);
sweep_test!(top_sx, SX, 200);
sweep_test!(top_fv_a3, FlatVec<[u8; 3], u32>, 60);
sweep_test!(top_fs, FlatString<u16>, 60);

// ---------------------------------------------------------------- more shapes

impl Item for FlatVec<u128, u8> {
    const KINDS: usize = 2;
    fn push_into<L: Flat + Length>(v: &mut FlexVec<Self, L>, kind: usize, r: &mut Rng) -> Result<(), Error> {
        match kind {
            0 => v.push(vec::Empty).map(|_| ()),
            _ => v.push(vec::FromArray([r.next() as u128])).map(|_| ()),
        }
    }
    fn assign(&mut self, _kind: usize, r: &mut Rng) -> Ranges {
        fv_mutate(self, r)
    }
    fn mutate(&mut self, r: &mut Rng) -> Ranges {
        fv_mutate(self, r)
    }
    fn new_at(bytes: &mut [u8], _kind: usize, _r: &mut Rng) -> Result<(), Error> {
        Self::new_in_place(bytes, vec::Empty).map(|_| ())
    }
}
impl Gen for u128 {
    fn gen(r: &mut Rng) -> Self {
        (r.next() as u128) << 64 | r.next() as u128
    }
}

macro_rules! impl_item_sized {
    ($t:ty, $mk:expr) => {
        impl Item for $t {
            const KINDS: usize = 1;
            fn push_into<L: Flat + Length>(v: &mut FlexVec<Self, L>, _kind: usize, r: &mut Rng) -> Result<(), Error> {
                let f: fn(&mut Rng) -> $t = $mk;
                v.push(f(r)).map(|_| ())
            }
            fn assign(&mut self, _kind: usize, r: &mut Rng) -> Ranges {
                let f: fn(&mut Rng) -> $t = $mk;
                let own = bytes_range(self);
                self.assign_in_place(f(r)).unwrap();
                vec![own]
            }
            fn mutate(&mut self, r: &mut Rng) -> Ranges {
                let f: fn(&mut Rng) -> $t = $mk;
                *self = f(r);
                vec![val_range(self)]
            }
            fn new_at(bytes: &mut [u8], _kind: usize, r: &mut Rng) -> Result<(), Error> {
                let f: fn(&mut Rng) -> $t = $mk;
                Self::new_in_place(bytes, f(r)).map(|_| ())
            }
            fn vec_from_iter<L: Flat + Length>(v: &mut FlexVec<Self, L>, r: &mut Rng) -> Option<bool> {
                let f: fn(&mut Rng) -> $t = $mk;
                let n = r.below(5);
                let xs: Vec<$t> = (0..n).map(|_| f(r)).collect();
                Some(v.assign_in_place(flex::FromIterator::new(xs)).is_ok())
            }
        }
    };
}

#[flat]
#[derive(Clone, Copy)]
pub struct P5 {
    a: u32,
    b: u8,
}
#[flat(tag_type = "u16")]
#[derive(Clone, Copy)]
pub enum SE {
    A,
    B(u8),
    C { x: u32, y: u8 },
    D([u8; 7]),
}
#[flat(portable = true)]
#[derive(Clone, Copy)]
pub enum PE {
    A,
    B(u8, flatty::portable::le::U32),
    C([u8; 5]),
}

impl_item_sized!(u32, |r| r.next() as u32);
impl_item_sized!(u8, |r| r.next() as u8);
impl_item_sized!([u8; 3], |r| <[u8; 3]>::gen(r));
impl_item_sized!(u128, |r| u128::gen(r));
impl_item_sized!((), |_r| ());
impl_item_sized!(P5, |r| P5 { a: r.next() as u32, b: r.next() as u8 });
impl_item_sized!(SE, |r| match r.below(4) {
    0 => SE::A,
    1 => SE::B(r.next() as u8),
    2 => SE::C { x: r.next() as u32, y: 1 },
    _ => SE::D([r.next() as u8; 7]),
});
impl_item_sized!(PE, |r| match r.below(3) {
    0 => PE::A,
    1 => PE::B(r.next() as u8, flatty::portable::le::U32::from(r.next() as u32)),
    _ => PE::C([r.next() as u8; 5]),
});

/// generic enum with a const parameter, an over-aligned zero-sized field and a sized tail variant
#[flat(sized = false, default = true, tag_type = "u32")]
pub enum GE<T: Flat + Gen, const N: usize> {
    A(T, u8),
    B([T; N], FlatVec<T, u8>),
    #[default]
    E,
    Z([u64; 0], FlatVec<u8, u8>),
    U { s: (), p: core::marker::PhantomData<u64>, v: FlatString<u16> },
}

impl<T: Flat + Gen, const N: usize> Item for GE<T, N> {
    const KINDS: usize = 5;
    fn push_into<L: Flat + Length>(v: &mut FlexVec<Self, L>, kind: usize, r: &mut Rng) -> Result<(), Error> {
        match kind {
            0 => v.push(GEInitA(T::gen(r), r.next() as u8)).map(|_| ()),
            1 => v.push(GEInitB([T::gen(r); N], vec::FromArray([T::gen(r); 2]))).map(|_| ()),
            2 => v.push(GEInitE).map(|_| ()),
            3 => v.push(GEInitZ([0u64; 0], vec::FromArray([1u8, 2, 3]))).map(|_| ()),
            _ => v
                .push(GEInitU {
                    s: (),
                    p: core::marker::PhantomData::<u64>,
                    v: string::FromStr("qq"),
                })
                .map(|_| ()),
        }
    }
    fn assign(&mut self, kind: usize, r: &mut Rng) -> Ranges {
        let own = bytes_range(self);
        let _ = match kind {
            0 => self.assign_in_place(GEInitA(T::gen(r), r.next() as u8)).map(|_| ()),
            1 => self.assign_in_place(GEInitB([T::gen(r); N], vec::FromArray([T::gen(r); 2]))).map(|_| ()),
            2 => self.assign_in_place(GEInitE).map(|_| ()),
            3 => self.assign_in_place(GEInitZ([0u64; 0], vec::FromArray([1u8, 2, 3]))).map(|_| ()),
            _ => self
                .assign_in_place(GEInitU {
                    s: (),
                    p: core::marker::PhantomData::<u64>,
                    v: string::FromStr("qq"),
                })
                .map(|_| ()),
        };
        vec![own]
    }
    fn mutate(&mut self, r: &mut Rng) -> Ranges {
        let own = bytes_range(self);
        let out = match self.as_mut() {
            GEMut::A(t, b) => {
                if r.below(2) == 0 {
                    *t = T::gen(r);
                    vec![val_range(t)]
                } else {
                    *b = r.next() as u8;
                    vec![val_range(b)]
                }
            }
            GEMut::B(arr, v) => {
                if N > 0 && r.below(3) == 0 {
                    let i = r.below(N);
                    arr[i] = T::gen(r);
                    vec![val_range(&arr[i])]
                } else {
                    fv_mutate(v, r)
                }
            }
            GEMut::E => vec![],
            GEMut::Z(_, v) => fv_mutate(v, r),
            GEMut::U { v, .. } => fs_mutate(v, r),
        };
        all_inside(&out, &own, "GE");
        out
    }
    fn new_at(bytes: &mut [u8], kind: usize, r: &mut Rng) -> Result<(), Error> {
        match kind {
            0 => Self::new_in_place(bytes, GEInitA(T::gen(r), r.next() as u8)).map(|_| ()),
            1 => Self::new_in_place(bytes, GEInitB([T::gen(r); N], vec::FromArray([T::gen(r); 2]))).map(|_| ()),
            2 => Self::new_in_place(bytes, GEInitE).map(|_| ()),
            3 => Self::new_in_place(bytes, GEInitZ([0u64; 0], vec::FromArray([1u8, 2, 3]))).map(|_| ()),
            _ => Self::new_in_place(
                bytes,
                GEInitU {
                    s: (),
                    p: core::marker::PhantomData::<u64>,
                    v: string::FromStr("qq"),
                },
            )
            .map(|_| ()),
        }
    }
    fn vec_from_iter<L: Flat + Length>(v: &mut FlexVec<Self, L>, r: &mut Rng) -> Option<bool> {
        let n = r.below(4);
        let xs: Vec<_> = (0..n).map(|_| GEInitZ([0u64; 0], vec::FromArray([r.next() as u8; 2]))).collect();
        Some(v.assign_in_place(flex::FromIterator::new(xs)).is_ok())
    }
}

/// explicit discriminants out of order, no default
#[flat(sized = false, tag_type = "u8")]
pub enum XD {
    A(u16) = 5,
    B(FlatVec<u8, u8>) = 2,
    C = 9,
    D(u32, FlatVec<u16, u16>) = 0,
}

impl Item for XD {
    const KINDS: usize = 4;
    fn push_into<L: Flat + Length>(v: &mut FlexVec<Self, L>, kind: usize, r: &mut Rng) -> Result<(), Error> {
        match kind {
            0 => v.push(XDInitA(r.next() as u16)).map(|_| ()),
            1 => v.push(XDInitB(vec::FromArray([r.next() as u8; 3]))).map(|_| ()),
            2 => v.push(XDInitC).map(|_| ()),
            _ => v.push(XDInitD(r.next() as u32, vec::FromArray([r.next() as u16]))).map(|_| ()),
        }
    }
    fn assign(&mut self, kind: usize, r: &mut Rng) -> Ranges {
        let own = bytes_range(self);
        let _ = match kind {
            0 => self.assign_in_place(XDInitA(r.next() as u16)).map(|_| ()),
            1 => self.assign_in_place(XDInitB(vec::FromArray([r.next() as u8; 3]))).map(|_| ()),
            2 => self.assign_in_place(XDInitC).map(|_| ()),
            _ => self.assign_in_place(XDInitD(r.next() as u32, vec::FromArray([r.next() as u16]))).map(|_| ()),
        };
        vec![own]
    }
    fn mutate(&mut self, r: &mut Rng) -> Ranges {
        let own = bytes_range(self);
        let out = match self.as_mut() {
            XDMut::A(a) => {
                *a = r.next() as u16;
                vec![val_range(a)]
            }
            XDMut::B(v) => fv_mutate(v, r),
            XDMut::C => vec![],
            XDMut::D(a, v) => {
                if r.below(3) == 0 {
                    *a = r.next() as u32;
                    vec![val_range(a)]
                } else {
                    fv_mutate(v, r)
                }
            }
        };
        all_inside(&out, &own, "XD");
        out
    }
    fn new_at(bytes: &mut [u8], kind: usize, r: &mut Rng) -> Result<(), Error> {
        match kind {
            0 => Self::new_in_place(bytes, XDInitA(r.next() as u16)).map(|_| ()),
            1 => Self::new_in_place(bytes, XDInitB(vec::FromArray([r.next() as u8; 3]))).map(|_| ()),
            2 => Self::new_in_place(bytes, XDInitC).map(|_| ()),
            _ => Self::new_in_place(bytes, XDInitD(r.next() as u32, vec::FromArray([r.next() as u16]))).map(|_| ()),
        }
    }
}

/// nested unsized enums / structs as tails of enum variants
#[flat(sized = false, default = true)]
pub enum NE {
    #[default]
    A,
    I(u8, E1),
    J(u16, E4),
    K(SX),
    L(u8, XD),
    M(FlexVec<XD, u8>),
}

impl Item for NE {
    const KINDS: usize = 6;
    fn push_into<L: Flat + Length>(v: &mut FlexVec<Self, L>, kind: usize, r: &mut Rng) -> Result<(), Error> {
        match kind {
            0 => v.push(NEInitA).map(|_| ()),
            1 => v.push(NEInitI(r.next() as u8, E1InitV(vec::FromArray([3u8])))).map(|_| ()),
            2 => v.push(NEInitJ(r.next() as u16, E4InitD(vec::FromArray([3u16])))).map(|_| ()),
            3 => v
                .push(NEInitK(SXInit {
                    h: r.next(),
                    k: 2u8,
                    x: flex::Empty,
                }))
                .map(|_| ()),
            4 => v.push(NEInitL(r.next() as u8, XDInitB(vec::Empty))).map(|_| ()),
            _ => v.push(NEInitM(flex::Empty)).map(|_| ()),
        }
    }
    fn assign(&mut self, kind: usize, r: &mut Rng) -> Ranges {
        let own = bytes_range(self);
        let _ = match kind {
            0 => self.assign_in_place(NEInitA).map(|_| ()),
            1 => self.assign_in_place(NEInitI(r.next() as u8, E1InitV(vec::FromArray([3u8])))).map(|_| ()),
            2 => self.assign_in_place(NEInitJ(r.next() as u16, E4InitD(vec::FromArray([3u16])))).map(|_| ()),
            3 => self
                .assign_in_place(NEInitK(SXInit {
                    h: r.next(),
                    k: 2u8,
                    x: flex::Empty,
                }))
                .map(|_| ()),
            4 => self.assign_in_place(NEInitL(r.next() as u8, XDInitB(vec::Empty))).map(|_| ()),
            _ => self.assign_in_place(NEInitM(flex::Empty)).map(|_| ()),
        }
        .map_err(|_| {
            // KNOWN (one-pass initialisers): a refused inner enum leaves the outer tag over stale bytes; recover.
            self.assign_in_place(NEInitA).unwrap();
        });
        vec![own]
    }
    fn mutate(&mut self, r: &mut Rng) -> Ranges {
        let own = bytes_range(self);
        let out = match self.as_mut() {
            NEMut::A => vec![],
            NEMut::I(a, e) => match r.below(5) {
                0 => {
                    *a = r.next() as u8;
                    vec![val_range(a)]
                }
                1 => {
                    let k = r.below(E1::KINDS);
                    let er = bytes_range(e);
                    let rs = e.assign(k, r);
                    all_inside(&rs, &er, "NE.I assign");
                    rs
                }
                _ => e.mutate(r),
            },
            NEMut::J(a, e) => match r.below(5) {
                0 => {
                    *a = r.next() as u16;
                    vec![val_range(a)]
                }
                1 => {
                    let k = r.below(E4::KINDS);
                    let er = bytes_range(e);
                    let rs = e.assign(k, r);
                    all_inside(&rs, &er, "NE.J assign");
                    rs
                }
                _ => e.mutate(r),
            },
            NEMut::K(s) => s.mutate(r),
            NEMut::L(a, e) => match r.below(5) {
                0 => {
                    *a = r.next() as u8;
                    vec![val_range(a)]
                }
                1 => {
                    let k = r.below(XD::KINDS);
                    e.assign(k, r)
                }
                _ => e.mutate(r),
            },
            NEMut::M(x) => fx_step(x, r),
        };
        all_inside(&out, &own, "NE");
        out
    }
    fn new_at(bytes: &mut [u8], kind: usize, r: &mut Rng) -> Result<(), Error> {
        match kind {
            0 => Self::new_in_place(bytes, NEInitA).map(|_| ()),
            1 => Self::new_in_place(bytes, NEInitI(r.next() as u8, E1InitV(vec::FromArray([3u8])))).map(|_| ()),
            2 => Self::new_in_place(bytes, NEInitJ(r.next() as u16, E4InitD(vec::FromArray([3u16])))).map(|_| ()),
            3 => Self::new_in_place(
                bytes,
                NEInitK(SXInit {
                    h: r.next(),
                    k: 2u8,
                    x: flex::Empty,
                }),
            )
            .map(|_| ()),
            4 => Self::new_in_place(bytes, NEInitL(r.next() as u8, XDInitB(vec::Empty))).map(|_| ()),
            _ => Self::new_in_place(bytes, NEInitM(flex::Empty)).map(|_| ()),
        }
    }
}

/// struct in struct, tuple struct
#[flat(sized = false)]
pub struct OT(u16, [u8; 3], S4);

impl Item for OT {
    const KINDS: usize = 2;
    fn push_into<L: Flat + Length>(v: &mut FlexVec<Self, L>, kind: usize, r: &mut Rng) -> Result<(), Error> {
        match kind {
            0 => v.push(OTInit(r.next() as u16, [1u8, 2, 3], S4Init { a: 1u8, b: 2u16, e: E4InitA })).map(|_| ()),
            _ => v
                .push(OTInit(
                    r.next() as u16,
                    [1u8, 2, 3],
                    S4Init {
                        a: 1u8,
                        b: 2u16,
                        e: E4InitD(vec::FromArray([1u16, 2])),
                    },
                ))
                .map(|_| ()),
        }
    }
    fn assign(&mut self, kind: usize, r: &mut Rng) -> Ranges {
        let own = bytes_range(self);
        let _ = match kind {
            0 => self
                .assign_in_place(OTInit(r.next() as u16, [1u8, 2, 3], S4Init { a: 1u8, b: 2u16, e: E4InitA }))
                .map(|_| ()),
            _ => self
                .assign_in_place(OTInit(
                    r.next() as u16,
                    [1u8, 2, 3],
                    S4Init {
                        a: 1u8,
                        b: 2u16,
                        e: E4InitD(vec::FromArray([1u16, 2])),
                    },
                ))
                .map(|_| ()),
        };
        vec![own]
    }
    fn mutate(&mut self, r: &mut Rng) -> Ranges {
        let own = bytes_range(self);
        let out = match r.below(6) {
            0 => {
                self.0 = r.next() as u16;
                vec![val_range(&self.0)]
            }
            1 => {
                self.1[1] = r.next() as u8;
                vec![val_range(&self.1)]
            }
            2 => {
                let k = r.below(S4::KINDS);
                let sr = bytes_range(&self.2);
                let rs = self.2.assign(k, r);
                all_inside(&rs, &sr, "OT.2 assign");
                rs
            }
            _ => self.2.mutate(r),
        };
        all_inside(&out, &own, "OT");
        out
    }
    fn new_at(bytes: &mut [u8], _kind: usize, r: &mut Rng) -> Result<(), Error> {
        Self::new_in_place(bytes, OTInit(r.next() as u16, [1u8, 2, 3], S4Init { a: 1u8, b: 2u16, e: E4InitA })).map(|_| ())
    }
}

sweep_test!(flex_u32_u8, FlexVec<u32, u8>, 80);
sweep_test!(flex_u8_u8, FlexVec<u8, u8>, 40);
sweep_test!(flex_u8_u32, FlexVec<u8, u32>, 80);
sweep_test!(flex_a3_u16, FlexVec<[u8; 3], u16>, 80);
sweep_test!(flex_u128_u8, FlexVec<u128, u8>, 200);
sweep_test!(flex_unit_u8, FlexVec<(), u8>, 40);
sweep_test!(flex_p5, FlexVec<P5, u8>, 100);
sweep_test!(flex_se, FlexVec<SE, u8>, 100);
sweep_test!(flex_pe, FlexVec<PE, u16>, 100);
sweep_test!(flex_fv_u128, FlexVec<FlatVec<u128, u8>, u8>, 250);
sweep_test!(flex_ge_u16_3, FlexVec<GE<u16, 3>, u16>, 250);
sweep_test!(flex_ge_u8_0, FlexVec<GE<u8, 0>, u8>, 200);
sweep_test!(flex_ge_a3_2, FlexVec<GE<[u8; 3], 2>, u32>, 250);
sweep_test!(flex_xd_u8, FlexVec<XD, u8>, 120);
sweep_test!(flex_xd_u32, FlexVec<XD, u32>, 120);
sweep_test!(flex_ne_u16, FlexVec<NE, u16>, 300);
sweep_test!(flex_ne_u8, FlexVec<NE, u8>, 250);
sweep_test!(flex_ot, FlexVec<OT, u16>, 200);
sweep_test!(top_ge, GE<u32, 1>, 80);
sweep_test!(top_xd, XD, 40);
sweep_test!(top_ne, NE, 200);
sweep_test!(top_ot, OT, 80);

impl Gen for () {
    fn gen(_r: &mut Rng) -> Self {}
}
impl Gen for [u64; 0] {
    fn gen(_r: &mut Rng) -> Self {
        []
    }
}
impl Gen for P5 {
    fn gen(r: &mut Rng) -> Self {
        P5 { a: r.next() as u32, b: r.next() as u8 }
    }
}
impl_item_flatvec!((), u8);
impl_item_flatvec!([u64; 0], u8);
impl_item_flatvec!([u64; 0], u16);
impl_item_flatvec!(P5, u8);
sweep_test!(flex_fv_unit, FlexVec<FlatVec<(), u8>, u8>, 60);
sweep_test!(flex_fv_z64, FlexVec<FlatVec<[u64; 0], u8>, u8>, 120);
sweep_test!(flex_fv_z64b, FlexVec<FlatVec<[u64; 0], u16>, u32>, 120);
sweep_test!(flex_fv_p5, FlexVec<FlatVec<P5, u8>, u16>, 160);
sweep_test!(top_fv_unit, FlatVec<(), u8>, 20);
sweep_test!(top_fv_z64, FlatVec<[u64; 0], u8>, 40);

// ---------------------------------------------------------------- deterministic boundary probe: extents around L::MAX for L = u8
fn boundary_probe<T: Flat + Gen>(align_fv: usize) {
    let mut r = Rng::new(99);
    for n in 60..=255usize {
        for extra in 0..3usize {
            for misalign in [0usize, 1, 2, 3, 5] {
                let misalign = misalign * align_fv;
                let len = 2 + 8 + n * T::SIZE + 40 + extra;
                let total = 64 + 64 + misalign + len + 64;
                let mut buf = vec![0u8; total];
                for b in buf.iter_mut() {
                    *b = r.next() as u8;
                }
                let base = buf.as_ptr() as usize;
                let off = (64 - base % 64) % 64 + 16 + misalign;
                let snap0 = buf.clone();
                {
                    let v = FlexVec::<FlatVec<T, u8>, u8>::new_in_place(&mut buf[off..off + len], flex::Empty).unwrap();
                    let xs: Vec<T> = (0..n).map(|_| T::gen(&mut r)).collect();
                    if v.push(vec::FromIterator(xs.into_iter())).is_err() {
                        continue;
                    }
                }
                for i in diff(&snap0, &buf) {
                    assert!(i >= off && i < off + len);
                }
                // second push: may be refused (extent does not fit u8) or accepted
                let snap = buf.clone();
                let (ok, first_end, own_end) = {
                    let v = FlexVec::<FlatVec<T, u8>, u8>::from_mut_bytes(&mut buf[off..off + len]).unwrap();
                    let own = bytes_range(v);
                    let it = v.iter().next().unwrap();
                    let first_end = bytes_range(it).start + it.size() - base;
                    let ok = v.push(vec::FromArray([T::gen(&mut r)])).is_ok();
                    (ok, first_end, own.end - base)
                };
                for i in diff(&snap, &buf) {
                    let in_slot0 = i == off;
                    let in_tail = i >= first_end && i < own_end;
                    assert!(
                        (ok && in_slot0) || in_tail,
                        "n={n} extra={extra} ok={ok}: byte {i} changed (off {off}, first_end {first_end}, own_end {own_end})"
                    );
                }
                // mutate first (now sealed, or still open) item to the full and pop / truncate
                let snap = buf.clone();
                let allowed = {
                    let v = FlexVec::<FlatVec<T, u8>, u8>::from_mut_bytes(&mut buf[off..off + len]).unwrap();
                    let it = v.iter_mut().next().unwrap();
                    let rg = bytes_range(it);
                    it.extend_until_full((0..300).map(|_| T::gen(&mut r)).collect::<Vec<_>>());
                    rg
                };
                for i in diff(&snap, &buf) {
                    assert!(allowed.contains(&(base + i)), "n={n} extra={extra} ok={ok}: fill changed byte {i}");
                }
                let _ = FlexVec::<FlatVec<T, u8>, u8>::from_mut_bytes(&mut buf[off..off + len]).unwrap();
            }
        }
    }
}
#[test]
fn boundary_u8_u8() {
    boundary_probe::<u8>(1);
}
#[test]
fn boundary_u16_u8() {
    boundary_probe::<u16>(2);
}
#[test]
fn boundary_a3_u8() {
    boundary_probe::<[u8; 3]>(1);
}
