// Integration test for the `flatty-tests` package: put into tests/tests/c20_f1.rs and run
//     cargo test -p flatty-tests --offline -j4 --test c20_f1
//
// C20: "default_in_place ... yields ... the variant marked #[default] for enums."
//
// The default emplacer of an unsized enum is the generated helper `<Name>Init<Variant>`. Its
// `emplace_unchecked` converts itself into the general `<Name>Init<..>` initialiser with METHOD SYNTAX
// (`self.into()`, macros/src/items/init.rs). The helper is a public, nameable type, so an inherent
// method called `into` on it wins over `Into::into`, and the default initialiser then writes whatever
// variant that method returns.
#![allow(dead_code)]
use flatty::{emplacer::NeverEmplacer, flat, prelude::*, FlatVec};

#[flat(sized = false, default = true)]
pub enum E {
    A,
    #[default]
    B,
    C(FlatVec<u8, u8>),
}

// A convenience method of the user on the generated helper type (it is `pub` and documented as the
// initialiser of variant `B`), e.g. to turn it into the general initialiser of some variant.
impl EInitB {
    pub fn into(self) -> EInit<NeverEmplacer> {
        EInit::A
    }
}

#[test]
fn default_in_place_yields_the_variant_marked_default() {
    for fill in [0x00u8, 0x01, 0xFF] {
        let mut buf = [fill; 8];
        let e = E::default_in_place(&mut buf).unwrap();
        // The property: the variant marked `#[default]` (B). The unchanged tree produces A.
        assert!(matches!(e.as_ref(), ERef::B), "fill {fill:#x}: default_in_place produced {:?}, not B", e.tag());
        assert_eq!(e.tag(), ETag::B);
    }
}

// The same path is used by every explicit variant initialiser: `new_in_place(.., EInitB)` is hijacked too.
#[test]
fn variant_initialiser_writes_its_own_variant() {
    let mut buf = [0xFFu8; 8];
    let e = E::new_in_place(&mut buf, EInitB).unwrap();
    assert_eq!(e.tag(), ETag::B);
}
