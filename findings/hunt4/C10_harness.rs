#![allow(dead_code)]
use flatty::{
    flat,
    portable::{be, le, Bool},
    traits::*,
    AlignedBytes, Flat, FlatString, FlatVec, FlexVec,
};
use flatty_io::{Receiver, RecvError};
use std::io::{self, Read};
use std::panic::{catch_unwind, AssertUnwindSafe};

// ---------- walkers ----------
pub trait Walk {
    fn walk(&self) -> u64;
}
macro_rules! walk_prim { ($($t:ty),*) => { $(impl Walk for $t { fn walk(&self) -> u64 { *self as u64 } })* } }
walk_prim!(u8, u16, u32, u64, i8, i16, i32, i64);
impl Walk for () {
    fn walk(&self) -> u64 {
        1
    }
}
impl Walk for Bool {
    fn walk(&self) -> u64 {
        let raw = unsafe { *(self as *const Bool as *const u8) };
        assert!(raw <= 1, "invalid Bool {}", raw);
        bool::from(*self) as u64
    }
}
macro_rules! walk_port { ($($t:ty),*) => { $(impl Walk for $t { fn walk(&self) -> u64 { num_to_u64(*self) } })* } }
walk_port!(le::U16, le::U32, be::U16, be::U32, le::U64);
impl<T: Walk + Flat, const N: usize> Walk for [T; N] {
    fn walk(&self) -> u64 {
        self.iter().fold(N as u64, |a, x| a.wrapping_mul(31).wrapping_add(x.walk()))
    }
}
impl<T: Walk + Flat, L: Flat + flatty::vec::Length> Walk for FlatVec<T, L> {
    fn walk(&self) -> u64 {
        let s = self.as_slice();
        assert!(s.len() == self.len());
        assert!(self.len() <= self.capacity());
        // zero-sized elements: do not iterate over astronomically many
        s.iter().take(1 << 16).fold(s.len() as u64, |a, x| a.wrapping_mul(31).wrapping_add(x.walk()))
    }
}
impl<T: Walk + Flat + ?Sized, L: Flat + flatty::vec::Length> Walk for FlexVec<T, L> {
    fn walk(&self) -> u64 {
        let n = self.len();
        let mut c = 0;
        let r = self.iter().fold(n as u64, |a, x| {
            c += 1;
            a.wrapping_mul(37).wrapping_add(x.walk()).wrapping_add(x.size() as u64)
        });
        assert_eq!(c, n);
        r
    }
}
impl<L: Flat + flatty::vec::Length> Walk for FlatString<L> {
    fn walk(&self) -> u64 {
        let s = self.as_str();
        assert!(std::str::from_utf8(s.as_bytes()).is_ok());
        s.bytes().fold(s.len() as u64, |a, x| a.wrapping_mul(31).wrapping_add(x as u64))
    }
}

fn num_to_u64<T: flatty::vec::Length>(x: T) -> u64 { x.to_u64().unwrap() }
// ---------- type zoo ----------
#[flat(sized = false, tag_type = "u32")]
pub enum E1 {
    A = 3,
    B(u8, FlatVec<u16, u8>) = 0x0100_0000,
    C { x: u64, s: FlatString<u8> } = 7,
}
impl Walk for E1 {
    fn walk(&self) -> u64 {
        let raw = unsafe { *(self as *const E1 as *const u8 as *const u32) };
        assert!([3, 0x0100_0000, 7].contains(&raw), "invalid E1 tag {}", raw);
        match self.as_ref() {
            E1Ref::A => 1,
            E1Ref::B(a, v) => 2 + a.walk() + v.walk(),
            E1Ref::C { x, s } => 3 + x.walk() + s.walk(),
        }
    }
}

#[flat(sized = false)]
pub enum Inner {
    P,
    Q(u16, FlatVec<u8, u8>),
    R(FlexVec<u8, u8>),
}
impl Walk for Inner {
    fn walk(&self) -> u64 {
        match self.as_ref() {
            InnerRef::P => 1,
            InnerRef::Q(a, v) => 2 + a.walk() + v.walk(),
            InnerRef::R(v) => 3 + v.walk(),
        }
    }
}

#[flat(sized = false, tag_type = "u16")]
pub enum Outer {
    X(u8, Inner),
    Y(FlexVec<Inner, u8>),
    Z,
    W(u32),
}
impl Walk for Outer {
    fn walk(&self) -> u64 {
        match self.as_ref() {
            OuterRef::X(a, i) => 1 + a.walk() + i.walk(),
            OuterRef::Y(v) => 2 + v.walk(),
            OuterRef::Z => 3,
            OuterRef::W(x) => 4 + x.walk(),
        }
    }
}

#[flat(sized = false)]
pub struct G<T: Flat, const N: usize> {
    a: [T; N],
    b: Bool,
    v: FlatVec<T, u16>,
}
impl<T: Flat + Walk, const N: usize> Walk for G<T, N> {
    fn walk(&self) -> u64 {
        self.a.walk() + self.b.walk() + self.v.walk()
    }
}

#[flat]
pub enum SE {
    A,
    B(u16, u8),
    C { a: u8, b: Bool },
    D(u32),
}
impl Walk for SE {
    fn walk(&self) -> u64 {
        let raw = unsafe { *(self as *const SE as *const u8) };
        assert!(raw <= 3, "invalid SE tag {}", raw);
        match self {
            SE::A => 1,
            SE::B(a, b) => 2 + a.walk() + b.walk(),
            SE::C { a, b } => 3 + a.walk() + b.walk(),
            SE::D(x) => 4 + x.walk(),
        }
    }
}

#[flat(tag_type = "u64")]
pub enum SW {
    A = 1,
    B(u8) = 0xffff_ffff_ffff_fffe,
    C(Bool, u16) = 0,
}
impl Walk for SW {
    fn walk(&self) -> u64 {
        let raw = unsafe { *(self as *const SW as *const u64) };
        assert!([1, 0xffff_ffff_ffff_fffe, 0].contains(&raw), "invalid SW tag {}", raw);
        match self {
            SW::A => 1,
            SW::B(a) => 2 + a.walk(),
            SW::C(b, c) => 3 + b.walk() + c.walk(),
        }
    }
}

#[flat(sized = false)]
pub struct S2 {
    h: SE,
    z: [u8; 0],
    u: (),
    v: FlexVec<SE, u8>,
}
impl Walk for S2 {
    fn walk(&self) -> u64 {
        self.h.walk() + self.z.walk() + self.u.walk() + self.v.walk()
    }
}

#[flat(sized = false)]
pub struct S3 {
    a: u64,
    w: SW,
    v: FlexVec<G<u16, 1>, u16>,
}
impl Walk for S3 {
    fn walk(&self) -> u64 {
        self.a.walk() + self.w.walk() + self.v.walk()
    }
}

#[flat(sized = false, portable = true)]
pub struct P1 {
    a: le::U32,
    b: Bool,
    v: FlatVec<be::U16, le::U16>,
}
impl Walk for P1 {
    fn walk(&self) -> u64 {
        self.a.walk() + self.b.walk() + self.v.walk()
    }
}

#[flat(sized = false, portable = true)]
pub enum P2 {
    A,
    B(le::U16, FlatString<le::U16>),
    C(FlexVec<P1, le::U16>),
}
impl Walk for P2 {
    fn walk(&self) -> u64 {
        match self.as_ref() {
            P2Ref::A => 1,
            P2Ref::B(a, s) => 2 + a.walk() + s.walk(),
            P2Ref::C(v) => 3 + v.walk(),
        }
    }
}


#[flat(sized = false, tag_type = "i16")]
pub enum N1 {
    A = -1,
    B(u8, FlexVec<FlatVec<u8, u8>, u8>) = -32768,
    C([u64; 0], ()) = 5,
    D(FlatString<u16>) = 6,
}
impl Walk for N1 {
    fn walk(&self) -> u64 {
        let raw = unsafe { *(self as *const N1 as *const u8 as *const i16) };
        assert!([-1, -32768, 5, 6].contains(&raw), "invalid N1 tag {}", raw);
        match self.as_ref() {
            N1Ref::A => 1,
            N1Ref::B(a, v) => 2 + a.walk() + v.walk(),
            N1Ref::C(a, b) => 3 + a.walk() + b.walk(),
            N1Ref::D(s) => 4 + s.walk(),
        }
    }
}
#[flat(sized = false)]
pub struct T1(u8, FlatVec<u8, u8>);
impl Walk for T1 { fn walk(&self) -> u64 { self.0.walk() + self.1.walk() } }
#[flat(sized = false)]
pub struct T2(FlexVec<T1, u8>);
impl Walk for T2 { fn walk(&self) -> u64 { self.0.walk() } }
#[flat(sized = false)]
pub struct O1 { a: u128, v: FlexVec<u8, u8> }
impl Walk for O1 { fn walk(&self) -> u64 { (self.a as u64) + self.v.walk() } }
#[flat(sized = false)]
pub enum One { Only(u16, FlatVec<SE, u16>) }
impl Walk for One { fn walk(&self) -> u64 { match self.as_ref() { OneRef::Only(a, v) => a.walk() + v.walk() } } }
#[flat(sized = false, tag_type = "u64")]
pub enum GE<T: Flat, const K: usize> { A([T; K]), B(Bool, G<T, K>), C }
impl<T: Flat + Walk, const K: usize> Walk for GE<T, K> {
    fn walk(&self) -> u64 { match self.as_ref() { GERef::A(a) => a.walk(), GERef::B(b, g) => b.walk() + g.walk(), GERef::C => 9 } }
}
#[flat]
pub struct Pad { a: u8, b: u32, c: Bool, d: SE }
impl Walk for Pad { fn walk(&self) -> u64 { self.a.walk() + self.b.walk() + self.c.walk() + self.d.walk() } }
// ---------- helpers ----------
pub struct Rng(pub u64);
impl Rng {
    pub fn next(&mut self) -> u64 {
        self.0 ^= self.0 << 13;
        self.0 ^= self.0 >> 7;
        self.0 ^= self.0 << 17;
        self.0
    }
    pub fn below(&mut self, n: usize) -> usize {
        (self.next() % n as u64) as usize
    }
    pub fn byte(&mut self) -> u8 {
        const SMALL: [u8; 16] = [0, 0, 0, 1, 1, 2, 2, 3, 4, 4, 6, 8, 8, 12, 255, 255];
        match self.below(10) {
            0 => self.next() as u8,
            1 => 16 + self.below(32) as u8,
            _ => SMALL[self.below(16)],
        }
    }
    pub fn stream(&mut self, max: usize, dict: &[&[u8]]) -> Vec<u8> {
        let n = self.below(max + 1);
        let mut v = Vec::new();
        let style = self.below(4);
        while v.len() < n {
            match self.below(8) {
                0 | 1 if !dict.is_empty() => v.extend_from_slice(dict[self.below(dict.len())]),
                2 | 3 if style > 0 => {
                    // small value zero-extended to the style's word
                    let w = [1usize, 2, 4, 8][style];
                    let b = self.byte();
                    while v.len() % w != 0 { v.push(0); }
                    v.push(b);
                    for _ in 1..w { v.push(0); }
                }
                _ => v.push(self.byte()),
            }
        }
        v.truncate(n.max(1).min(v.len()));
        v
    }
}

#[derive(Debug, Clone, PartialEq)]
enum V {
    More,
    Ok(usize, u64),
    Err(flatty::Error),
}

fn view<M: Flat + Walk + ?Sized>(bytes: &[u8]) -> V {
    let buf = AlignedBytes::from_slice(bytes, M::ALIGN);
    match M::from_bytes(&buf) {
        Ok(m) => {
            let size = m.size();
            assert!(size <= bytes.len(), "size {} > given {}", size, bytes.len());
            assert!(m.as_bytes().len() <= bytes.len());
            assert!(size % M::ALIGN == 0);
            V::Ok(size, m.walk())
        }
        Err(e) if e.kind == flatty::error::ErrorKind::InsufficientSize => V::More,
        Err(e) => V::Err(e),
    }
}

/// validate on every prefix: `More*` then a constant verdict; accepted message is self-contained.
fn mono<M: Flat + Walk + ?Sized>(stream: &[u8]) -> Result<bool, String> {
    let mut verdict: Option<(usize, V)> = None;
    for n in 0..=stream.len() {
        let v = view::<M>(&stream[..n]);
        match (&verdict, &v) {
            (None, V::More) => {}
            (None, _) => {
                if let V::Ok(size, w) = &v {
                    let iso = view::<M>(&stream[..*size]);
                    if iso != V::Ok(*size, *w) {
                        return Err(format!("isolated prefix of {} bytes gives {:?}, in-stream (n={}) {:?}", size, iso, n, v));
                    }
                }
                verdict = Some((n, v));
            }
            (Some((n0, v0)), _) => {
                if v0 != &v {
                    return Err(format!("verdict at n={} is {:?} but at n={} it is {:?}", n0, v0, n, v));
                }
            }
        }
    }
    Ok(matches!(verdict, Some((_, V::Ok(..)))))
}

struct Chunked<'a> {
    data: &'a [u8],
    pos: usize,
    rng: Rng,
    mode: u8,
    reads: std::rc::Rc<std::cell::Cell<usize>>,
    delivered: std::rc::Rc<std::cell::Cell<usize>>,
}
impl<'a> Read for Chunked<'a> {
    fn read(&mut self, buf: &mut [u8]) -> io::Result<usize> {
        self.reads.set(self.reads.get() + 1);
        assert!(!buf.is_empty(), "read into empty buffer");
        if self.mode == 3 && self.rng.below(3) == 0 {
            return Err(io::ErrorKind::Interrupted.into());
        }
        let left = self.data.len() - self.pos;
        let want = match self.mode {
            0 => 1,
            1 => usize::MAX,
            _ => 1 + self.rng.below(7),
        };
        let n = want.min(left).min(buf.len());
        buf[..n].copy_from_slice(&self.data[self.pos..self.pos + n]);
        self.pos += n;
        self.delivered.set(self.delivered.get() + n);
        Ok(n)
    }
}

/// Run the real receiver over the stream; returns the outcome list.
fn run_recv<M: Flat + Walk + ?Sized>(stream: &[u8], mode: u8, seed: u64, max_msg_len: usize) -> Result<Vec<String>, String> {
    let res = catch_unwind(AssertUnwindSafe(|| {
        let reads = std::rc::Rc::new(std::cell::Cell::new(0usize));
        let delivered = std::rc::Rc::new(std::cell::Cell::new(0usize));
        let rd = Chunked { data: stream, pos: 0, rng: Rng(seed | 1), mode, reads: reads.clone(), delivered: delivered.clone() };
        let mut rx = Receiver::<M, _>::io(rd, max_msg_len);
        let mut out = Vec::new();
        let mut consumed = 0usize;
        enum Step { Msg, Parse(flatty::Error), Read(io::ErrorKind), Closed }
        for _ in 0..(8 * stream.len() + 64) {
            // what is buffered already decides whether a read is allowed
            let pre = view::<M>(&stream[consumed..delivered.get()]);
            let reads0 = reads.get();
            let check_reads = |reads: &std::cell::Cell<usize>| {
                if pre != V::More {
                    assert_eq!(reads.get(), reads0, "recv read more input although the buffered bytes give {:?}", pre);
                }
            };
            let step = match { let r = rx.recv(); check_reads(&reads); r } {
                Ok(g) => {
                    let size = g.size();
                    let w = g.walk();
                    assert!(consumed + size <= delivered.get(), "message of {} bytes at {} exceeds delivered {}", size, consumed, delivered.get());
                    let iso = view::<M>(&stream[consumed..consumed + size]);
                    assert_eq!(iso, V::Ok(size, w), "message at {} not valid on its own", consumed);
                    consumed += size;
                    out.push(format!("ok({},{})", size, w));
                    drop(g);
                    Step::Msg
                }
                Err(RecvError::Parse(e)) => Step::Parse(e),
                Err(RecvError::Read(e)) => Step::Read(e.kind()),
                Err(RecvError::Closed) => Step::Closed,
            };
            let again = |rx: &mut Receiver<M, flatty_io::IoBuffer<Chunked>>| loop {
                break match rx.recv() {
                    Ok(_) => "ok".to_string(),
                    Err(RecvError::Parse(e)) => format!("parse({:?})", e),
                    Err(RecvError::Read(e)) if e.kind() == io::ErrorKind::Interrupted => continue,
                    Err(RecvError::Read(e)) => format!("read({:?})", e.kind()),
                    Err(RecvError::Closed) => "closed".to_string(),
                };
            };
            match step {
                Step::Msg => continue,
                Step::Parse(e) => {
                    let o = format!("parse({:?})", e);
                    assert_eq!(again(&mut rx), o);
                    out.push(o);
                }
                Step::Read(io::ErrorKind::Interrupted) => continue,
                Step::Read(k) => {
                    let o = format!("read({:?})", k);
                    let a = again(&mut rx);
                    assert!(a == o || a == "closed" || a == "read(Interrupted)", "after {} got {}", o, a);
                    out.push(o);
                }
                Step::Closed => {
                    assert_eq!(again(&mut rx), "closed");
                    out.push("closed".to_string());
                }
            }
            break;
        }
        out
    }));
    res.map_err(|e| {
        if let Some(s) = e.downcast_ref::<String>() {
            s.clone()
        } else if let Some(s) = e.downcast_ref::<&str>() {
            s.to_string()
        } else {
            "panic".to_string()
        }
    })
}

fn sweep<M: Flat + Walk + ?Sized>(name: &str, iters: usize, max_len: usize, dict: &[&[u8]]) {
    let mut rng = Rng(0x9E3779B97F4A7C15 ^ name.len() as u64 ^ (name.as_bytes()[0] as u64) << 8);
    let mut accepted = 0;
    let mut fails = 0;
    for i in 0..iters {
        let s = rng.stream(max_len, dict);
        match catch_unwind(AssertUnwindSafe(|| mono::<M>(&s))) {
            Ok(Ok(a)) => accepted += a as usize,
            Ok(Err(msg)) => {
                fails += 1;
                if fails <= 5 {
                    eprintln!("[{}] MONO FAIL #{}: {:?}: {}", name, i, s, msg);
                }
            }
            Err(_) => {
                fails += 1;
                if fails <= 5 {
                    eprintln!("[{}] MONO PANIC #{}: {:?}", name, i, s);
                }
            }
        }
        // receiver with three chunkings and a few buffer sizes: the outcomes must agree between chunkings
        let mml = [0usize, 1, 3, 8, 17, 64, 1000][rng.below(7)];
        let outs: Vec<_> = (0..4u8).map(|m| run_recv::<M>(&s, m, rng.next(), mml)).collect();
        let mut outs = outs;
        if std::env::var("C10_ASYNC").is_ok() || i % 16 == 0 {
            for m in 0..3u8 { outs.push(asy::run::<M>(&s, m, rng.next(), mml)); }
        }
        if outs.iter().any(|o| matches!(o, Ok(v) if v.iter().any(|x| x.contains("BadAlign")))) {
            fails += 1;
            eprintln!("[{}] BADALIGN #{} mml={}: {:?}: {:?}", name, i, mml, s, outs);
        }
        for o in &outs {
            if let Err(p) = o {
                fails += 1;
                if fails <= 5 {
                    eprintln!("[{}] RECV PANIC #{} mml={}: {:?}: {}", name, i, mml, s, p);
                }
            }
        }
        if outs.iter().all(|o| o.is_ok()) && !outs.iter().all(|o| o == &outs[0]) {
            fails += 1;
            if fails <= 5 {
                eprintln!("[{}] CHUNKING DIFF #{} mml={}: {:?}:\n  {:?}", name, i, mml, s, outs);
            }
        }
    }
    eprintln!("[{}] iters={} accepted(first msg)={} fails={}", name, iters, accepted, fails);
    assert_eq!(fails, 0, "{}", name);
}

fn n_iters() -> usize { std::env::var("C10_N").ok().and_then(|s| s.parse().ok()).unwrap_or(300000) }

macro_rules! t { ($fname:ident, $ty:ty) => { t!($fname, $ty, []); }; ($fname:ident, $ty:ty, [$($d:expr),*]) => { #[test] fn $fname() { sweep::<$ty>(stringify!($fname), n_iters(), 64, &[$(&$d[..]),*]); } } }
t!(z01_flex_flatvec, FlexVec<FlatVec<u8, u8>, u8>);
t!(z02_flex_flex, FlexVec<FlexVec<u16, u8>, u16>);
t!(z03_flex_sized, FlexVec<u32, u8>);
t!(z04_flex_e1, FlexVec<E1, u16>, [[3,0,0,0],[0,0,0,1],[7,0,0,0],[255,255]]);
t!(z05_outer, Outer);
t!(z06_g, G<u32, 3>);
t!(z07_g_se, G<SE, 2>);
t!(z08_s2, S2);
t!(z09_s3, S3, [[1,0,0,0,0,0,0,0],[0xfe,255,255,255,255,255,255,255],[0,0,0,0,0,0,0,0],[255,255]]);
t!(z10_p1, P1);
t!(z11_p2, P2);
t!(z12_flex_unit, FlexVec<(), u8>);
t!(z13_flex_flatvec_unit, FlexVec<FlatVec<(), u8>, u8>);
t!(z14_flex_string, FlexVec<FlatString<u8>, u8>);
t!(z15_e1, E1, [[3,0,0,0],[0,0,0,1],[7,0,0,0]]);
t!(z16_flex_u64off, FlexVec<FlatVec<u16, u8>, u64>, [[255,255,255,255,255,255,255,255],[16,0,0,0,0,0,0,0],[24,0,0,0,0,0,0,0]]);
t!(z17_flatvec_sw, FlatVec<SW, u8>, [[1,0,0,0,0,0,0,0],[0xfe,255,255,255,255,255,255,255],[0,0,0,0,0,0,0,0]]);
t!(z18_flex_flex_flex, FlexVec<FlexVec<FlexVec<u8, u8>, u8>, u8>);
t!(z19_inner, Inner);
t!(z20_flex_outer, FlexVec<Outer, u32>, [[255,255,255,255],[8,0,0,0],[12,0,0,0],[16,0,0,0]]);

t!(z21_n1, N1, [[255,255],[0,128],[5,0],[6,0]]);
t!(z22_t2, T2);
t!(z23_o1, O1);
t!(z24_one, One);
t!(z25_ge, GE<u16, 3>, [[1,0,0,0,0,0,0,0],[2,0,0,0,0,0,0,0],[0,0,0,0,0,0,0,0]]);
t!(z26_ge0, GE<u8, 0>, [[1,0,0,0,0,0,0,0],[2,0,0,0,0,0,0,0],[0,0,0,0,0,0,0,0]]);
t!(z27_flex_ge, FlexVec<GE<u8, 1>, u8>, [[1,0,0,0,0,0,0,0],[2,0,0,0,0,0,0,0],[0,0,0,0,0,0,0,0],[255,0,0,0,0,0,0,0]]);
t!(z28_flatvec_pad, FlatVec<Pad, u32>);
t!(z29_flex_n1, FlexVec<N1, u16>, [[255,255],[0,128],[5,0],[6,0]]);
t!(z30_flex_o1, FlexVec<O1, u8>);

impl Walk for u128 { fn walk(&self) -> u64 { *self as u64 } }
t!(z31_flex_u32_leu16, FlexVec<u32, le::U16>, [[255,255]]);
t!(z32_flatvec_zstarr, FlatVec<[u32; 0], u8>);
t!(z33_flex_zstarr, FlexVec<[u32; 0], u8>);
t!(z34_flex_u128, FlexVec<u128, u8>, [[255,0,0,0,0,0,0,0,0,0,0,0,0,0,0,0],[32,0,0,0,0,0,0,0,0,0,0,0,0,0,0,0]]);
t!(z35_flatvec_u64len_unit, FlatVec<(), u64>);
t!(z36_flex_flatvec_u64len_unit, FlexVec<FlatVec<[u8; 0], u64>, u16>, [[255,255,255,255,255,255,255,255]]);

// ---------- async ----------
mod asy {
    use super::*;
    use futures::io::AsyncRead;
    use flatty_io::AsyncReceiver;
    use std::pin::Pin;
    use std::task::{Context, Poll};

    pub struct AChunked<'a> { pub data: &'a [u8], pub pos: usize, pub rng: Rng, pub mode: u8 }
    impl<'a> AsyncRead for AChunked<'a> {
        fn poll_read(mut self: Pin<&mut Self>, cx: &mut Context<'_>, buf: &mut [u8]) -> Poll<io::Result<usize>> {
            assert!(!buf.is_empty());
            if self.mode == 2 && self.rng.below(3) == 0 {
                cx.waker().wake_by_ref();
                return Poll::Pending;
            }
            let left = self.data.len() - self.pos;
            let want = match self.mode { 0 => 1, 1 => usize::MAX, _ => 1 + self.rng.below(7) };
            let n = want.min(left).min(buf.len());
            let pos = self.pos;
            buf[..n].copy_from_slice(&self.data[pos..pos + n]);
            self.pos += n;
            Poll::Ready(Ok(n))
        }
    }

    pub fn run<M: Flat + Walk + ?Sized>(stream: &[u8], mode: u8, seed: u64, mml: usize) -> Result<Vec<String>, String> {
        catch_unwind(AssertUnwindSafe(|| {
            futures::executor::block_on(async {
                let rd = AChunked { data: stream, pos: 0, rng: Rng(seed | 1), mode };
                let mut rx = AsyncReceiver::<M, _>::io(rd, mml);
                let mut out = Vec::new();
                let mut consumed = 0;
                for _ in 0..(stream.len() + 4) {
                    let o = match rx.recv().await {
                        Ok(g) => {
                            let size = g.size();
                            let w = g.walk();
                            assert!(consumed + size <= stream.len());
                            assert_eq!(view::<M>(&stream[consumed..consumed + size]), V::Ok(size, w));
                            consumed += size;
                            out.push(format!("ok({},{})", size, w));
                            continue;
                        }
                        Err(RecvError::Parse(e)) => format!("parse({:?})", e),
                        Err(RecvError::Read(e)) => format!("read({:?})", e.kind()),
                        Err(RecvError::Closed) => "closed".to_string(),
                    };
                    out.push(o);
                    break;
                }
                out
            })
        }))
        .map_err(|e| e.downcast_ref::<String>().cloned().unwrap_or_else(|| "panic".into()))
    }
}

t!(z40_se, SE);
t!(z41_sw, SW, [[1,0,0,0,0,0,0,0],[0xfe,255,255,255,255,255,255,255],[0,0,0,0,0,0,0,0]]);
t!(z42_pad, Pad);
t!(z43_arr_se, [SE; 2]);
t!(z44_g_unit, G<(), 5>);
t!(z45_g_bool, G<Bool, 1>);
