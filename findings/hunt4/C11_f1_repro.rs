//! C11: a mapped FlatVec of zero-sized elements must behave like `Vec<()>` under `clear` / `truncate`:
//! `Vec::<()>::clear()` on a vector of 2^32 .. 2^63 elements returns at once (nothing to drop);
//! the flat vector pops the elements one by one, so the operation does not finish in any useful time.
use flatty::{prelude::*, AlignedBytes, FlatVec};
use std::{sync::mpsc, thread, time::Duration};

fn finishes<F: FnOnce() -> (usize, usize) + Send + 'static>(f: F) -> Option<(usize, usize)> {
    let (tx, rx) = mpsc::channel();
    thread::spawn(move || {
        let _ = tx.send(f());
    });
    rx.recv_timeout(Duration::from_secs(10)).ok()
}

#[test]
fn vec_model_is_instant() {
    // the reference model: a Vec<()> of 2^63 elements is cleared immediately
    let mut v: Vec<()> = Vec::new();
    unsafe { v.set_len(1 << 63) }; // (Vec::resize itself is a loop in unoptimised builds)
    v.truncate((1 << 63) - 5);
    assert_eq!(v.len(), (1 << 63) - 5);
    v.clear();
    assert_eq!(v.len(), 0);
}

#[test]
fn clear_zst_u64() {
    let r = finishes(|| {
        // a valid image: length 2^63 (capacity of a ZST vector is L::MAX whatever the buffer size)
        let mut mem = AlignedBytes::from_slice(&(1u64 << 63).to_ne_bytes(), 8);
        let v = FlatVec::<(), u64>::from_mut_bytes(&mut mem).unwrap();
        assert_eq!(v.len(), 1 << 63);
        assert_eq!(v.capacity(), u64::MAX as usize);
        v.clear();
        (v.len(), v.capacity())
    });
    assert_eq!(r, Some((0, u64::MAX as usize)), "clear() of a valid FlatVec<(), u64> did not finish in 10 s");
}

#[test]
fn truncate_zst_u64() {
    let r = finishes(|| {
        let mut mem = AlignedBytes::from_slice(&(1u64 << 63).to_ne_bytes(), 8);
        let v = FlatVec::<(), u64>::from_mut_bytes(&mut mem).unwrap();
        v.truncate(7);
        (v.len(), v.capacity())
    });
    assert_eq!(r, Some((7, u64::MAX as usize)), "truncate(7) of a valid FlatVec<(), u64> did not finish in 10 s");
}

#[test]
fn resize_down_zst_u32() {
    let r = finishes(|| {
        let mut mem = AlignedBytes::from_slice(&u32::MAX.to_ne_bytes(), 4);
        let v = FlatVec::<[u32; 0], u32>::from_mut_bytes(&mut mem).unwrap();
        v.resize(1, []);
        (v.len(), v.capacity())
    });
    assert_eq!(r, Some((1, u32::MAX as usize)), "resize(1) of a full FlatVec<[u32; 0], u32> did not finish in 10 s");
}
