//! Triage reproducers for findings on the pinned tree (evidence only; never registered as checks).
//! Each test documents the FAILING behaviour: it passes when the defect is present? No:
//! each test asserts the CORRECT behaviour, so it FAILS on the pinned tree and passes after the fix.
#![allow(dead_code)]

#[cfg(test)]
mod f09_write_error_swallowed {
    use flatty_io::Sender;
    use std::io::{self, Write};

    struct FailN { left: usize, calls: usize }
    impl Write for FailN {
        fn write(&mut self, b: &[u8]) -> io::Result<usize> {
            self.calls += 1;
            if self.left > 0 { self.left -= 1; Err(io::ErrorKind::Other.into()) } else { Ok(b.len()) }
        }
        fn flush(&mut self) -> io::Result<()> { Ok(()) }
    }

    #[test]
    fn write_error_at_pos0_is_returned() {
        let mut sink = FailN { left: 1000, calls: 0 };
        {
            let mut s = Sender::<u32, _>::io(&mut sink, 4);
            let g = s.alloc().unwrap().new_in_place(7u32).unwrap();
            let r = g.send();
            assert!(r.is_err(), "send() returned Ok although the sink failed");
        }
        assert_eq!(sink.calls, 1, "sink called {} times", sink.calls);
    }
}

#[cfg(test)]
mod common {
    pub use flatty::{flat, flat_vec, prelude::*, portable::{le, Bool}, AlignedBytes, Error, error::ErrorKind, FlatString, FlatVec, FlexVec};
    pub fn aligned(bytes: &[u8], align: usize) -> AlignedBytes { AlignedBytes::from_slice(bytes, align) }
}

/// Finding 1 / 16 (C01, C10, C06): FlexVec offset chain walk is not bounded by the remaining bytes.
#[cfg(test)]
mod f01_flex_next_unbounded {
    use super::common::*;
    #[test]
    fn offset_beyond_slice_is_an_error_not_a_panic() {
        let r = std::panic::catch_unwind(|| FlexVec::<u8, u8>::validate(&[5, 0]).is_err());
        assert_eq!(r.ok(), Some(true), "validate(&[5,0]) must return Err");
    }
    #[test]
    fn short_last_slot_is_an_error_not_a_panic() {
        // FlexVec<u32,u8>: OFFSET_SIZE 4. first item extent 8, then a last-item marker with only 2 bytes left
        let b = aligned(&[8, 0, 0, 0, 1, 0, 0, 0, 0xff, 0], 4);
        let r = std::panic::catch_unwind(|| FlexVec::<u32, u8>::validate(&b).is_err());
        assert_eq!(r.ok(), Some(true));
    }
    #[test]
    fn offset_smaller_than_slot_is_a_content_error() {
        // OFFSET_SIZE = 4 for FlexVec<u32,u8>; next = 2 < 4 can never become valid with more bytes
        let b = aligned(&[2, 0, 0, 0, 0, 0, 0, 0], 4);
        let e = FlexVec::<u32, u8>::validate(&b).unwrap_err();
        assert_ne!(e.kind, ErrorKind::InsufficientSize, "a too small offset is a content error: {:?}", e);
    }
}

/// Finding 3 (C01): division by the element size for zero-sized elements.
#[cfg(test)]
mod f03_zst_elements {
    use super::common::*;
    #[test]
    fn vec_of_unit_validates_without_panic() {
        let r = std::panic::catch_unwind(|| FlatVec::<(), u8>::validate(&[0]).is_ok());
        assert_eq!(r.ok(), Some(true));
    }
}

/// Finding 4 / 18 (C02, C03): enum payload validated / initialised over more bytes than the view covers.
#[cfg(test)]
mod f04_enum_payload_range {
    use super::common::*;
    #[flat(sized = false)]
    enum UE { A, B(u32, FlatVec<u8, u16>) }
    #[test]
    fn accepted_image_has_len_within_capacity() {
        // tag=1 | pad | u32 | len=4 | 4 data bytes ; total 14 bytes, ALIGN 4 -> view payload floor(14-4,4)=8 -> vec sees 4 bytes -> capacity 2
        let mut img = vec![1u8, 0, 0, 0, 9, 9, 9, 9, 4, 0, 1, 2, 3, 4];
        let b = aligned(&img, 4);
        match UE::from_bytes(&b) {
            Ok(v) => match v.as_ref() { UERef::B(_, vec) => assert!(vec.len() <= vec.capacity(), "len {} > capacity {}", vec.len(), vec.capacity()), _ => panic!() },
            Err(_) => (),
        }
        img.clear();
    }
    #[test]
    fn emplaced_value_validates() {
        let mut b = AlignedBytes::new(19, 4);
        match UE::new_in_place(&mut b, UEInitB(7, flat_vec![1u8, 2, 3, 4, 5, 6, 7, 8])) {
            Ok(v) => { let bytes = v.as_bytes().to_vec(); let c = aligned(&bytes, 4); assert!(UE::validate(&c).is_ok(), "own bytes do not validate"); }
            Err(e) => assert_eq!(e.kind, ErrorKind::InsufficientSize),
        }
    }
}

/// Finding 4b (C02): FlexVec validated over more bytes than its view covers.
#[cfg(test)]
mod f04b_flex_range {
    use super::common::*;
    #[test]
    fn accepted_flexvec_items_are_consistent() {
        let b = aligned(&[0xff, 0xff, 4, 1, 2, 3, 4], 2);
        if let Ok(v) = FlexVec::<FlatVec<u8, u8>, u16>::from_bytes(&b[..7]) {
            let it = v.iter().next().unwrap();
            assert!(it.len() <= it.capacity(), "len {} > capacity {}", it.len(), it.capacity());
        }
    }
}

/// Finding 5 (C02): c-like enum with explicit discriminants validated against the variant count.
#[cfg(test)]
mod f05_explicit_discriminants {
    use super::common::*;
    #[flat]
    #[derive(Debug, PartialEq, Eq)]
    enum CL { A = 1, B = 5 }
    #[test]
    fn accept_set_is_the_declared_discriminants() {
        assert!(CL::from_bytes(&[0]).is_err(), "tag 0 names no variant");
        assert!(CL::from_bytes(&[1]).is_ok());
        assert!(CL::from_bytes(&[5]).is_ok(), "tag 5 is variant B");
        assert!(CL::from_bytes(&[2]).is_err());
    }
}

/// Finding 6 / 17 (C04, C05, C07, C10): unsized struct view may exceed its slice.
#[cfg(test)]
mod f06_struct_view {
    use super::common::*;
    #[flat(sized = false)]
    struct US { a: u64, v: FlatVec<u8, u16> }
    #[test]
    fn view_never_exceeds_slice() {
        for n in 0..40usize {
            let mut b = AlignedBytes::new(n.max(1), 8);
            b.iter_mut().for_each(|x| *x = 0);
            if let Ok(v) = US::from_bytes(&b[..n]) {
                assert!(core::mem::size_of_val(v) <= n, "slice {} bytes, size_of_val {}", n, core::mem::size_of_val(v));
                assert!(v.size() <= n, "slice {} bytes, size() {}", n, v.size());
            }
        }
    }
}

/// Finding 7 (C05): FlatVec/FlatString size() is not rounded to the alignment.
#[cfg(test)]
mod f07_vec_size_rounding {
    use super::common::*;
    #[test]
    fn remap_of_size_bytes_succeeds() {
        let mut b = AlignedBytes::new(16, 4);
        let v = FlatVec::<u8, u32>::new_in_place(&mut b, flat_vec![7u8]).unwrap();
        let n = v.size();
        assert_eq!(n % 4, 0, "size() {} is not a multiple of ALIGN", n);
        let again = FlatVec::<u8, u32>::from_bytes(&b[..n]).unwrap();
        assert_eq!(again.as_slice(), &[7u8]);
        let mut b = AlignedBytes::new(16, 4);
        let s = FlatString::<u32>::new_in_place(&mut b, flatty::string::FromStr("abcde")).unwrap();
        assert_eq!(s.size() % 4, 0);
    }
}

/// Finding 8 (C05): FlexVec::size drops one slot.
#[cfg(test)]
mod f08_flex_size {
    use super::common::*;
    #[test]
    fn size_covers_the_last_item() {
        let mut b = AlignedBytes::new(64, 4);
        let v = FlexVec::<FlatVec<i32, u16>, u16>::default_in_place(&mut b).unwrap();
        v.push_default().unwrap().push_slice(&[1, 2]).unwrap();
        let n = v.size();
        assert_eq!(n, 4 + 4 + 8, "slot + vec header + 2 items");
        let again = FlexVec::<FlatVec<i32, u16>, u16>::from_bytes(&b[..n]).unwrap();
        assert_eq!(again.len(), 1);
        assert_eq!(again.iter().next().unwrap().as_slice(), &[1, 2]);
    }
}

/// Finding 10 (C12): pop/truncate keep one item too many; truncate(len) panics.
#[cfg(test)]
mod f10_flex_truncate {
    use super::common::*;
    fn make(b: &mut AlignedBytes) -> &mut FlexVec<FlatVec<i32, u16>, u16> {
        let v = FlexVec::<FlatVec<i32, u16>, u16>::default_in_place(b).unwrap();
        for i in 0..3 { v.push_default().unwrap().push_slice(&[i]).unwrap(); }
        v
    }
    #[test]
    fn pop_removes_the_last_item() {
        let mut b = AlignedBytes::new(128, 4);
        let v = make(&mut b);
        v.pop().unwrap();
        assert_eq!(v.len(), 2);
        assert_eq!(v.iter().map(|x| x.as_slice()[0]).collect::<Vec<_>>(), vec![0, 1]);
    }
    #[test]
    fn truncate_keeps_min_n_len() {
        for n in 0..6usize {
            let mut b = AlignedBytes::new(128, 4);
            let v = make(&mut b);
            let r = std::panic::catch_unwind(std::panic::AssertUnwindSafe(|| { v.truncate(n); v.len() }));
            assert_eq!(r.ok(), Some(n.min(3)), "truncate({})", n);
        }
    }
}

/// Finding 11 (C13): a refused FlexVec::push modifies the vector.
#[cfg(test)]
mod f11_flex_push_failure {
    use super::common::*;
    #[test]
    fn refused_push_leaves_the_vector_unchanged() {
        let mut b = AlignedBytes::new(4 + 4 + 4 + 2, 4);
        b.iter_mut().for_each(|x| *x = 0xee);
        let v = FlexVec::<FlatVec<i32, u16>, u16>::default_in_place(&mut b).unwrap();
        v.push_default().unwrap().push_slice(&[5]).unwrap();
        let before = v.as_bytes().to_vec();
        assert!(v.push_default().is_err());
        let after = v.as_bytes().to_vec();
        assert_eq!(before, after, "bytes changed by a refused push");
        let r = std::panic::catch_unwind(std::panic::AssertUnwindSafe(|| v.len()));
        assert_eq!(r.ok(), Some(1));
    }
}

/// Finding 13 (C18): enum Init writes the tag before the per-variant size check.
#[cfg(test)]
mod f13_tag_before_size_gate {
    use super::common::*;
    #[flat(sized = false, default = true)]
    enum UE { #[default] A, B(u64, FlatVec<u8, u16>) }
    #[test]
    fn failed_assign_leaves_a_valid_value() {
        let mut b = AlignedBytes::new(8, 8);
        let v = UE::default_in_place(&mut b).unwrap();
        let e = v.assign_in_place(UEInitB(1, flat_vec![1u8])).err().unwrap();
        assert_eq!(e.kind, ErrorKind::InsufficientSize);
        assert!(UE::validate(&b).is_ok(), "value left invalid after a refused assignment");
    }
}

/// Finding 14 (C18): FromArray / FromStr reset the target before the room check.
#[cfg(test)]
mod f14_check_before_reset {
    use super::common::*;
    #[test]
    fn too_little_room_leaves_target_unchanged() {
        let mut b = AlignedBytes::new(2 + 4, 2);
        let v = FlatVec::<u8, u16>::new_in_place(&mut b, flat_vec![1u8, 2, 3]).unwrap();
        assert!(v.assign_in_place(flat_vec![9u8; 5]).is_err());
        assert_eq!(v.as_slice(), &[1, 2, 3], "vector was emptied by a refused assignment");
        let mut b = AlignedBytes::new(2 + 4, 2);
        let s = FlatString::<u16>::new_in_place(&mut b, flatty::string::FromStr("abc")).unwrap();
        assert!(s.assign_in_place(flatty::string::FromStr("too long")).is_err());
        assert_eq!(s.as_str(), "abc");
    }
}

/// Finding 15 (C19): element / item errors are not shifted by the element position.
#[cfg(test)]
mod f15_error_offsets {
    use super::common::*;
    #[flat(sized = false)]
    struct S { a: u32, b: Bool, v: FlatVec<Bool, u8> }
    #[test]
    fn bad_bool_in_vec_is_reported_where_it_is() {
        // a:0..4 b:4 v: len@5, data@6..  -> second element at 7
        let img = [0u8, 0, 0, 0, 1, 2, 1, 7];
        let b = aligned(&img, 4);
        assert_eq!(S::validate(&b).unwrap_err().pos, 7);
    }
    #[test]
    fn bad_bool_in_array_is_reported_where_it_is() {
        let e = <[Bool; 4]>::validate(&[0, 1, 0, 3]).unwrap_err();
        assert_eq!(e.pos, 3);
    }
    #[test]
    fn bad_item_in_flexvec_is_reported_where_it_is() {
        // FlexVec<FlatVec<Bool,u8>,u8>: slot(1) [len(1) data..]
        let img = [0xffu8, 2, 1, 9];
        let e = FlexVec::<FlatVec<Bool, u8>, u8>::validate(&img).unwrap_err();
        assert_eq!(e.pos, 3);
    }
}

/// Finding 14c (C18): FlexVec FromIterator failing mid-way leaves an unterminated chain.
#[cfg(test)]
mod f14c_flex_from_iterator_failure {
    use super::common::*;
    #[test]
    fn failed_from_iterator_leaves_a_valid_vector() {
        type F = FlexVec<FlatVec<i32, u16>, u16>;
        let mut b = AlignedBytes::new(4 + 4 + 8 + 4 + 4 + 4, 4);
        b.iter_mut().for_each(|x| *x = 0x77);
        let v = F::default_in_place(&mut b).unwrap();
        let items = [flatty::vec::FromIterator(0..2), flatty::vec::FromIterator(0..100)];
        assert!(v.assign_in_place(flatty::flex::FromIterator::new(items)).is_err());
        assert!(F::validate(&b).is_ok(), "vector left invalid after a failed assignment");
        let r = std::panic::catch_unwind(std::panic::AssertUnwindSafe(|| F::from_bytes(&b).unwrap().size()));
        assert!(r.is_ok());
    }
}

/// Finding 17 (C07, C10): consequence of finding 6 in the receiver: a read ending inside trailing padding.
#[cfg(test)]
mod f17_recv_padding {
    use super::common::*;
    use flatty_io::Receiver;
    use std::io::{self, Read};
    #[flat(sized = false)]
    struct Msg { a: u64, v: FlatVec<u8, u16> }
    struct Chunks { data: Vec<u8>, cuts: Vec<usize>, pos: usize }
    impl Read for Chunks {
        fn read(&mut self, b: &mut [u8]) -> io::Result<usize> {
            if self.pos >= self.data.len() { return Ok(0); }
            let n = if self.cuts.is_empty() { self.data.len() - self.pos } else { self.cuts.remove(0) };
            let n = n.min(b.len()).min(self.data.len() - self.pos);
            b[..n].copy_from_slice(&self.data[self.pos..self.pos + n]);
            self.pos += n;
            Ok(n)
        }
    }
    #[test]
    fn message_is_delivered_only_when_complete() {
        let mut img = AlignedBytes::new(16, 8);
        Msg::new_in_place(&mut img, MsgInit { a: 7, v: flat_vec![1u8, 2] }).unwrap();
        let src = Chunks { data: img.to_vec(), cuts: vec![12, 4], pos: 0 };
        let mut r = Receiver::<Msg, _>::io(src, 32);
        let res = std::panic::catch_unwind(std::panic::AssertUnwindSafe(|| {
            let g = r.recv().unwrap();
            assert_eq!(g.a, 7);
            assert_eq!(g.v.as_slice(), &[1, 2]);
        }));
        assert!(res.is_ok(), "receiver panicked");
    }
}

/// KNOWN FINDING (not fixed) C01/C11: length types wider than usize (u128) panic in stavec's len()/capacity()
/// (`to_usize().unwrap()`), reached from FlatVec/FlatString::validate_unchecked before any check.
/// Not repairable inside /repo in a small patch: every operation of such a vector goes through the same stavec calls.
/// This test asserts that the defect is STILL PRESENT (it fails when somebody fixes it: then update known_findings.json).
#[cfg(test)]
mod known_f02_len_wider_than_usize {
    use super::common::*;
    #[test]
    fn validate_panics_for_u128_length() {
        let b = aligned(&[0xffu8; 32], 16);
        let r = std::panic::catch_unwind(|| FlatVec::<u8, u128>::validate(&b).is_err());
        assert!(r.is_err(), "defect no longer reproduces: validate returned {:?}", r);
    }
}

/// KNOWN FINDING (not fixed) C18: generated initialisers are one-pass; when a trailing field's emplacer fails after the
/// tag and the leading fields of the new variant were written, the target keeps the new tag over the old tail and may be invalid.
/// Asserts that the defect is STILL PRESENT.
#[cfg(test)]
mod f18a_composite_with_container_tail {
    use super::common::*;
    #[flat(sized = false)]
    enum UE { A, B(u32, FlatVec<u8, u16>), C(FlatVec<u8, u8>) }
    #[test]
    fn failed_assign_with_a_refused_container_tail_leaves_a_valid_value() {
        let mut b = AlignedBytes::new(12, 4);
        b.iter_mut().for_each(|x| *x = 0);
        let v = UE::new_in_place(&mut b, UEInitC(flat_vec![0xffu8; 7])).unwrap();
        let e = v.assign_in_place(UEInitB(1, flat_vec![9u8; 5])).err().unwrap();
        assert_eq!(e.kind, ErrorKind::InsufficientSize);
        // since finding 35 a refused FromArray / FromStr tail makes stale bytes an empty container: this instance is valid again
        assert!(UE::validate(&b).is_ok());
    }
}

/// KNOWN FINDING 19, second witness (independent of how the leaf container emplacers order their room check): the trailing field is a
/// nested unsized enum whose own per-variant size gate refuses the new content without touching its bytes, after the outer tag was switched.
/// Asserts that the defect is STILL PRESENT.
#[cfg(test)]
mod known_f18b_composite_nested_enum {
    use super::common::*;
    #[flat(sized = false)]
    enum Inner { A, B(FlatVec<u8, u8>), C(u32, FlatVec<u8, u8>) }
    #[flat(sized = false)]
    enum Outer { X(FlatVec<u8, u8>), Y(Inner) }
    #[test]
    fn failed_assign_with_nested_enum_tail_can_leave_invalid_value() {
        // 4 (outer tag + padding) + 8 payload bytes: Inner::C needs 4 (tag) + 4 (u32) + 1 = 9 > 8, Inner's MIN_SIZE (4) fits.
        let mut b = AlignedBytes::new(12, 4);
        b.iter_mut().for_each(|x| *x = 0);
        let v = Outer::new_in_place(&mut b, OuterInitX(flat_vec![0xffu8; 7])).unwrap();
        let e = v.assign_in_place(OuterInitY(InnerInitC(1, flat_vec![9u8; 1]))).err().unwrap();
        assert_eq!(e.kind, ErrorKind::InsufficientSize);
        assert!(Outer::validate(&b).is_err(), "defect no longer reproduces");
    }
}

/// Finding 21 (C02, C03, C20): a `#[flat]` enum WITH FIELDS and explicit discriminants: the generated `<Name>Tag` helper dropped the
/// discriminants, so the validator accepted tags 0..N instead of the declared ones (sized), and wrote 0..N (unsized).
#[cfg(test)]
mod f21_explicit_discriminants_data_enum {
    use super::common::*;
    #[flat]
    #[derive(Debug, PartialEq, Eq, Default)]
    enum E { #[default] A = 1, B(u8) = 5 }
    #[flat(sized = false)]
    enum U { A = 3, B(u8, FlatVec<u8, u8>) = 9 }
    #[test]
    fn sized_valid_image_accepted_and_invalid_refused() {
        assert_eq!(E::B(7).as_bytes()[0], 5);
        let mem = aligned(&[5, 7], 1);
        assert_eq!(E::from_bytes(&mem).ok(), Some(&E::B(7)), "valid image refused");
        let mem = aligned(&[0, 7], 1);
        assert!(E::from_bytes(&mem).is_err(), "tag 0 accepted");
        let mut b = aligned(&[0xff, 0xff], 1);
        E::default_in_place(&mut b).unwrap();
        assert!(E::validate(&b).is_ok(), "default does not validate");
        assert_eq!(b[0], 1);
    }
    #[test]
    fn unsized_tag_is_the_declared_one() {
        let mut b = AlignedBytes::new(8, 1);
        b.iter_mut().for_each(|x| *x = 0);
        U::new_in_place(&mut b, UInitB(1, flat_vec![2u8, 3])).unwrap();
        assert_eq!(b[0], 9, "declared discriminant not used");
        assert!(U::validate(&b).is_ok());
        let mem = aligned(&[3, 0, 0, 0], 1);
        assert!(U::validate(&mem).is_ok());
        let mem = aligned(&[0, 0, 0, 0], 1);
        assert!(U::validate(&mem).is_err(), "tag 0 accepted");
        // tag 9 with too little room for B's fields must be InsufficientSize, not a panic
        let mem = aligned(&[9], 1);
        assert_eq!(U::validate(&mem).unwrap_err().kind, ErrorKind::InsufficientSize);
    }
}

/// Finding 22 (C10, C06): a SEALED (non-last) FlexVec item whose fixed extent is too small for its content was reported as
/// InsufficientSize ("send more bytes") although no further byte can change it; the receiver then reads until OutOfMemory.
#[cfg(test)]
mod f22_sealed_item_shortfall {
    use super::common::*;
    type V = FlexVec<FlatVec<i32, u16>, u16>;
    #[test]
    fn sealed_item_too_small_is_a_content_error() {
        // slot0 = 4: the item ends right behind its slot, no room for the FlatVec header; then a zero terminator
        let mem = aligned(&[4, 0, 0, 0, 0, 0, 0, 0], 4);
        assert_eq!(V::validate(&mem).unwrap_err().kind, ErrorKind::InvalidData);
        // sealed item with 4 payload bytes (capacity 0) announcing len 1
        let mem = aligned(&[8, 0, 0, 0, 1, 0, 0, 0, 0, 0, 0, 0], 4);
        assert_eq!(V::validate(&mem).unwrap_err().kind, ErrorKind::InvalidData);
    }
    #[test]
    fn open_last_item_shortfall_still_asks_for_more() {
        // last item (0xffff marker) announcing len 1 with no room yet: more input can complete it
        let mem = aligned(&[0xff, 0xff, 0, 0, 1, 0, 0, 0], 4);
        assert_eq!(V::validate(&mem).unwrap_err().kind, ErrorKind::InsufficientSize);
    }
}

/// Finding 23 (C01): `FlatVec<ZST, L>` has unbounded capacity, so the validator looped once per ANNOUNCED element: 8 bytes of input
/// (`FlatVec<(), u64>` with len = u64::MAX) asked for 2^64 iterations. The test uses 2^26 and a time budget.
#[cfg(test)]
mod f23_zst_vec_validation_is_bounded {
    use super::common::*;
    #[test]
    fn array_of_zero_sized_elements_is_validated_in_bounded_time() {
        // [(); 1 << 40] is a legal zero-byte type (finding 30: the array validator looped N times)
        let t = std::time::Instant::now();
        assert!(<[(); 1 << 40]>::validate(&[]).is_ok());
        let mem = aligned(&[1], 1);
        assert!(FlatVec::<[(); 1 << 40], u8>::validate(&mem).is_ok());
        assert!(t.elapsed().as_millis() < 200, "took {:?}", t.elapsed());
    }
    #[test]
    fn validation_work_is_bounded_by_the_input() {
        let mem = aligned(&[0xff, 0xff, 0xff, 0x03], 4); // len = 2^26 - 1 zero-sized elements in 4 bytes of input
        let t = std::time::Instant::now();
        assert!(FlatVec::<(), u32>::validate(&mem).is_ok());
        let mem = aligned(&[0xff; 8], 8);
        assert!(FlatVec::<(), u64>::validate(&mem).is_ok());
        assert!(t.elapsed().as_millis() < 200, "validation of 12 bytes took {:?}", t.elapsed());
    }
}

/// KNOWN FINDING (not fixed) C18, "left unchanged" clause: the FromIterator emplacers of FlatVec / FlexVec make one pass over a source of
/// unknown length, so they reset the target and fill it until it refuses: the refused assign leaves a valid but changed target.
/// Asserts that the defect is STILL PRESENT.
#[cfg(test)]
mod known_f24_fromiterator_refusal_changes_target {
    use super::common::*;
    use flatty::vec::FromIterator;
    #[test]
    fn refused_assign_from_iterator_changes_the_vector() {
        let mut b = AlignedBytes::new(1 + 4, 1);
        b.iter_mut().for_each(|x| *x = 0);
        let v = FlatVec::<u8, u8>::new_in_place(&mut b, flat_vec![7u8, 8]).unwrap();
        let e = v.assign_in_place(FromIterator((0u8..10).into_iter())).err().unwrap();
        assert_eq!(e.kind, ErrorKind::InsufficientSize);
        assert!(FlatVec::<u8, u8>::validate(&b).is_ok());
        let v = FlatVec::<u8, u8>::from_bytes(&b).unwrap();
        assert_ne!(v.as_slice(), &[7u8, 8][..], "defect no longer reproduces");
    }
}

/// KNOWN FINDINGS (not fixed) C17 "the encoding is a pure function of the content":
/// (a) a sized portable enum has the size of its largest variant; the bytes behind a shorter variant are part of the image but of no field;
/// (b) FlexVec has an "open last item" image (after push) and a "sealed item + zero terminator" image (after pop) of the same sequence.
/// Both tests assert that the defect is STILL PRESENT.
#[cfg(test)]
mod known_f25_portable_images_depend_on_history {
    use super::common::*;
    #[flat(portable = true)]
    #[derive(Default)]
    enum Small { #[default] A, B(le::U32) }
    #[test]
    fn sized_enum_image_contains_bytes_of_no_field() {
        assert_eq!(<Small as flatty::traits::FlatSized>::SIZE, 5);
        let mut x = AlignedBytes::new(5, 1);
        let mut y = AlignedBytes::new(5, 1);
        x.iter_mut().for_each(|b| *b = 0x11);
        y.iter_mut().for_each(|b| *b = 0x22);
        // make both values `A` by writing only what the content determines: the tag
        x[0] = 0;
        y[0] = 0;
        let a = Small::from_bytes(&x).unwrap();
        let b = Small::from_bytes(&y).unwrap();
        assert!(matches!(a, Small::A) && matches!(b, Small::A));
        assert_eq!(a.size(), 5);
        assert_ne!(a.as_bytes(), b.as_bytes(), "defect no longer reproduces");
    }
    #[test]
    fn flexvec_has_two_images_of_one_sequence() {
        type V = FlexVec<FlatVec<u8, le::U16>, le::U16>;
        let mut x = AlignedBytes::new(32, 1);
        let mut y = AlignedBytes::new(32, 1);
        x.iter_mut().for_each(|b| *b = 0);
        y.iter_mut().for_each(|b| *b = 0);
        let v = V::default_in_place(&mut x).unwrap();
        v.push(flat_vec![97u8, 98]).unwrap();
        let w = V::default_in_place(&mut y).unwrap();
        w.push(flat_vec![97u8, 98]).unwrap();
        w.push(flat_vec![99u8]).unwrap();
        w.pop().unwrap();
        assert_eq!(v.len(), 1);
        assert_eq!(w.len(), 1);
        assert_eq!(v.iter().next().unwrap().as_slice(), w.iter().next().unwrap().as_slice());
        assert_ne!(v.size(), w.size(), "defect no longer reproduces");
    }
}

/// Finding 28 (C02, C04, C11, C18): `as_bytes()` of an unsized #[flat] struct was `LAST_FIELD_OFFSET + tail bytes`, not rounded up to the
/// struct's alignment (the struct-level twin of finding 20): shorter than size()/size_of_val, its own bytes re-map to a smaller capacity.
#[cfg(test)]
mod f28_struct_own_bytes {
    use super::common::*;
    #[flat(sized = false, default = true)]
    struct Msg { id: u32, items: FlatVec<[u8; 3], u8> }
    #[test]
    fn own_bytes_cover_the_value_and_validate_again() {
        let mut b = AlignedBytes::new(12, 4);
        b.iter_mut().for_each(|x| *x = 0);
        let m = Msg::default_in_place(&mut b).unwrap();
        assert_eq!(m.items.capacity(), 2);
        m.items.push([10, 11, 12]).unwrap();
        m.items.push([20, 21, 22]).unwrap();
        assert_eq!(m.size(), 12);
        assert_eq!(m.as_bytes().len(), 12, "as_bytes() shorter than the value");
        let own = aligned(m.as_bytes(), 4);
        let again = Msg::from_bytes(&own).expect("own bytes do not validate");
        assert_eq!(again.items.capacity(), 2);
    }
}

/// Finding 29 (C02, C05, C10, C12): FlexVec validation accepted a sealed item whose extent is not a multiple of the vector's alignment
/// (possible when the offset type is less aligned than the items): the terminator then sits at an unaligned position, size() counts a
/// full slot for it and exceeds the bytes; a receiver panics in Buffer::skip when the guard is dropped.
#[cfg(test)]
mod f29_flex_unaligned_extent {
    use super::common::*;
    #[test]
    fn unaligned_sealed_extent_is_refused() {
        // item 0 declares extent 9: the zero terminator would sit at offset 9
        let mem = aligned(&[9, 0, 0, 0, 0x78, 0x56, 0x34, 0x12, 0xaa, 0, 0, 0], 4);
        match FlexVec::<u32, u8>::from_bytes(&mem) {
            Ok(v) => panic!("accepted; size() = {} of {} bytes", v.size(), mem.len()),
            Err(e) => assert_eq!(e.kind, ErrorKind::InvalidData),
        }
        // aligned extents still work
        let mem = aligned(&[8, 0, 0, 0, 0x78, 0x56, 0x34, 0x12, 0, 0, 0, 0], 4);
        let v = FlexVec::<u32, u8>::from_bytes(&mem).unwrap();
        assert_eq!(v.len(), 1);
        assert!(v.size() <= mem.len());
    }
}

/// Finding 31 (C03, C15): flex::FromIterator converted the extent of EVERY item to the offset type, also of the last one, which stays
/// open and needs no stored extent: content that `default_in_place` + `push` builds fine was refused for every buffer size.
#[cfg(test)]
mod f31_flex_fromiterator_last_item {
    use super::common::*;
    use flatty::flex::FromIterator;
    use flatty::string::FromStr;
    #[test]
    fn a_large_last_item_is_accepted_like_push_does() {
        type V = FlexVec<FlatString<u16>, u8>;
        let big = "x".repeat(300);
        let mut a = AlignedBytes::new(1024, 2);
        let mut b = AlignedBytes::new(1024, 2);
        a.iter_mut().for_each(|x| *x = 0);
        b.iter_mut().for_each(|x| *x = 0);
        let v = V::default_in_place(&mut a).unwrap();
        v.push(FromStr("header")).unwrap();
        v.push(FromStr(big.as_str())).unwrap();
        let w = V::new_in_place(&mut b, FromIterator::new([FromStr("header"), FromStr(big.as_str())])).expect("refused content that fits");
        assert_eq!(w.len(), 2);
        let (sv, sw) = (v.size(), w.size());
        assert_eq!(sv, sw);
        assert_eq!(&a[..sv], &b[..sw]);
        // an item that is NOT the last one still needs a representable extent
        let mut c = AlignedBytes::new(1024, 2);
        c.iter_mut().for_each(|x| *x = 0);
        assert!(V::new_in_place(&mut c, FromIterator::new([FromStr(big.as_str()), FromStr("tail")])).is_err());
        assert!(V::validate(&c).is_ok());
    }
}

/// Finding 35 (C18, C14): a refused FromArray / FromStr emplacer left the bytes untouched (finding 14a's repair), also when they are
/// no valid container at all - the tail of a composite that is being re-initialised: the enum kept the new tag over a stale length
/// (len 40, capacity 6) and the next SAFE edit (`v.push`) wrote outside the slice in release builds. Now: valid target untouched,
/// anything else made empty.
#[cfg(test)]
mod f35_refused_tail_leaves_a_valid_value {
    use super::common::*;
    use flatty::vec::FromArray;
    use flatty::string::FromStr;
    #[flat(sized = false)]
    enum E { A, B(u8, u16, u16), C { x: u32, v: FlatVec<u8, u16> }, D(u32, FlatString<u16>) }
    #[test]
    fn composite_stays_valid_when_the_tail_is_refused() {
        let mut b = AlignedBytes::new(16, 4);
        b.iter_mut().for_each(|x| *x = 0);
        E::new_in_place(&mut b, EInitB(1, 2, 40)).unwrap(); // bytes 8..10 (the future v.len) = 40
        let e = E::from_mut_bytes(&mut b).unwrap();
        assert!(e.assign_in_place(EInitC { x: 5, v: FromArray([0u8; 100]) }).is_err());
        assert!(E::validate(&b).is_ok(), "invalid value left behind");
        E::new_in_place(&mut b, EInitB(1, 2, 40)).unwrap();
        let e = E::from_mut_bytes(&mut b).unwrap();
        assert!(e.assign_in_place(EInitD(7, FromStr("a string that is far too long for this"))).is_err());
        assert!(E::validate(&b).is_ok(), "invalid value left behind");
    }
    #[test]
    fn stand_alone_target_is_left_unchanged() {
        let mut b = AlignedBytes::new(2 + 4, 2);
        b.iter_mut().for_each(|x| *x = 0);
        let v = FlatVec::<u8, u16>::new_in_place(&mut b, flat_vec![7u8, 8]).unwrap();
        assert!(v.assign_in_place(FromArray([1u8; 9])).is_err());
        assert_eq!(v.as_slice(), &[7u8, 8][..]);
        let mut b = AlignedBytes::new(2 + 4, 2);
        b.iter_mut().for_each(|x| *x = 0);
        let s = FlatString::<u16>::new_in_place(&mut b, FromStr("ab")).unwrap();
        assert!(s.assign_in_place(FromStr("far too long")).is_err());
        assert_eq!(s.as_str(), "ab");
    }
}

/// KNOWN FINDING 19 seen from C14: the invalid value a failed composite assignment leaves behind (nested enum tail whose own size
/// gate refuses without touching its bytes) carries a stale length; a later SAFE edit trusts it. Asserts that the value is invalid
/// and that its stale length exceeds the capacity (the write itself is not performed here).
#[cfg(test)]
mod known_f19c_invalid_value_has_stale_length {
    use super::common::*;
    #[flat(sized = false)]
    enum Inner { A, B(FlatVec<u8, u8>), C(u32, FlatVec<u8, u8>) }
    #[flat(sized = false)]
    enum Outer { X(u8, u8, u8, u8, u8), Y(Inner) }
    #[test]
    fn stale_length_survives_under_the_new_tag() {
        let mut b = AlignedBytes::new(12, 4);
        b.iter_mut().for_each(|x| *x = 0);
        // old payload: bytes 4..9 = 1, 40, 40, 40, 40 -> read as Inner: tag 1 (B), FlatVec len 40 at payload offset 1
        let v = Outer::new_in_place(&mut b, OuterInitX(1, 40, 40, 40, 40)).unwrap();
        let e = v.assign_in_place(OuterInitY(InnerInitC(1, flat_vec![9u8; 1]))).err().unwrap();
        assert_eq!(e.kind, ErrorKind::InsufficientSize);
        assert!(Outer::validate(&b).is_err(), "defect no longer reproduces");
        assert_eq!(b[0], 1, "outer tag was switched to Y");
    }
}

/// Finding 20 (C02, C05, C11): as_bytes() of a FlatVec whose element size is not a multiple of the vector's alignment
/// is shorter than the value (not rounded to ALIGN): the value's own bytes do not re-map to the same capacity / do not validate.
#[cfg(test)]
mod f20_vec_own_bytes {
    use super::common::*;
    #[test]
    fn own_bytes_validate_again() {
        let mut b = AlignedBytes::new(8 + 16, 8);
        let v = FlatVec::<[u32; 3], u64>::default_in_place(&mut b).unwrap();
        assert_eq!(v.capacity(), 1);
        v.push([1, 2, 3]).unwrap();
        let own = v.as_bytes().to_vec();
        assert_eq!(own.len() % 8, 0, "as_bytes() is {} bytes, not a multiple of ALIGN", own.len());
        let c = aligned(&own, 8);
        assert!(FlatVec::<[u32; 3], u64>::validate(&c).is_ok(), "own bytes do not validate");
    }
}

/// Finding 38 (C05, C02, C10): the generated size() / ptr_from_bytes / ptr_to_bytes / validator read the alignment as `Self::ALIGN`;
/// an inherent `const ALIGN` on the user's type (safe user code, no warning) wins over `FlatBase::ALIGN` there, but not in MIN_SIZE and
/// the initialiser: size() exceeds the bytes mapped and the view is inconsistent (len > capacity).
#[cfg(test)]
mod f38_inherent_align_const {
    use super::common::*;
    #[flat(sized = false)]
    pub struct Msg { pub id: u8, pub items: FlatVec<u8, u8> }
    impl Msg { pub const ALIGN: usize = 4; }
    #[flat(sized = false)]
    pub enum En { A, B(u8, FlatVec<u8, u8>) }
    impl En { pub const ALIGN: usize = 4; }
    #[test]
    fn size_is_rounded_to_the_trait_alignment() {
        assert_eq!(<Msg as FlatBase>::ALIGN, 1);
        let mut mem = AlignedBytes::new(16, 4);
        let msg = Msg::new_in_place(&mut mem, MsgInit { id: 1, items: flat_vec![1u8, 2, 3] }).unwrap();
        assert_eq!(FlatBase::size(msg), 5);
    }
    #[test]
    fn size_stays_within_the_bytes_mapped() {
        let mut mem = AlignedBytes::new(7, 4);
        let msg = Msg::new_in_place(&mut mem, MsgInit { id: 1, items: flat_vec![1u8, 2, 3] }).unwrap();
        assert!(FlatBase::size(msg) <= 7);
        assert!(msg.items.len() <= msg.items.capacity());
        assert_eq!(msg.items.as_slice(), &[1, 2, 3]);
    }
    #[test]
    fn enum_view_and_size() {
        assert_eq!(<En as FlatBase>::ALIGN, 1);
        let mut mem = AlignedBytes::new(7, 4);
        let e = En::new_in_place(&mut mem, EnInitB(1, flat_vec![1u8, 2, 3])).unwrap();
        assert_eq!(FlatBase::size(e), 6);
        assert!(En::validate(&mem).is_ok());
    }
}

/// Finding 39 (C15, C03), same family as 36 / 38: the generated initialiser returned `Type::from_mut_bytes_unchecked(bytes)`, a
/// type-qualified path that prefers an inherent function of the user's type with that name over FlatUnsized's.
#[cfg(test)]
mod f39_inherent_from_mut_bytes_unchecked {
    use super::common::*;
    #[flat(sized = false)]
    pub struct Msg { pub id: u8, pub items: FlatVec<u8, u8> }
    impl Msg {
        /// user helper: maps the header part only
        pub unsafe fn from_mut_bytes_unchecked(bytes: &mut [u8]) -> &mut Self {
            <Self as FlatUnsized>::from_mut_bytes_unchecked(&mut bytes[..2])
        }
    }
    #[test]
    fn new_in_place_returns_the_view_of_the_whole_slice() {
        let mut mem = AlignedBytes::new(16, 4);
        // (`new_in_place` maps the bytes again itself; the emplacer's own return value is what `Emplacer::emplace` hands out)
        let msg = flatty::Emplacer::<Msg>::emplace(MsgInit { id: 1, items: flat_vec![1u8, 2, 3] }, &mut mem).unwrap();
        assert!(msg.items.len() <= msg.items.capacity(), "len {} > capacity {}", msg.items.len(), msg.items.capacity());
        assert_eq!(msg.items.as_slice(), &[1, 2, 3]);
    }
}

/// Finding 40 (C02), same family: the validator / initialiser of an unsized enum named the items of the generated tag helper by type
/// path (`<MsgTag>::validate_unchecked`, `MsgTag::V.emplace_unchecked`); the helper is emitted next to the type, so user code can
/// add inherent items to it that take over (reported by a round-6 agent).
#[cfg(test)]
mod f40_tag_helper_inherent_items {
    use super::common::*;
    #[flat(sized = false)]
    enum Msg { A, B(u8, FlatVec<u8, u8>) }
    impl MsgTag {
        #[allow(dead_code)]
        pub fn validate_unchecked(_bytes: &[u8]) -> Result<(), flatty::Error> { Ok(()) }
    }
    #[test]
    fn undeclared_tag_is_refused() {
        let mem = AlignedBytes::from_slice(&[7, 0, 0, 0], 1);
        assert!(Msg::validate(&mem).is_err(), "tag 7 names no variant of Msg");
    }
}

/// Finding 42 (C20), same family as 36 / 38-40 (hunter C20, third round): the per-variant initialiser `<Name>Init<Variant>` converted
/// itself with `self.into()`; an inherent `into` on that nameable helper redirects `default_in_place` / `new_in_place(.., EInitB)`.
#[cfg(test)]
mod f42_variant_init_into {
    use super::common::*;
    use flatty::emplacer::NeverEmplacer;
    #[flat(sized = false, default = true)]
    pub enum E { A, #[default] B, C(FlatVec<u8, u8>) }
    impl EInitB {
        pub fn into(self) -> EInit<NeverEmplacer> { EInit::A }
    }
    #[test]
    fn default_in_place_yields_the_variant_marked_default() {
        let mut buf = [0xffu8; 8];
        let e = E::default_in_place(&mut buf).unwrap();
        assert_eq!(e.tag(), ETag::B);
    }
}
