//! Triage reproducers for findings on the pinned tree (evidence only; never registered as checks).
//! Each test documents the FAILING behaviour: it passes when the defect is present? No:
//! each test asserts the CORRECT behaviour, so it FAILS on the pinned tree and passes after the fix.
#![allow(dead_code)]

#[cfg(test)]
mod f09_write_error_swallowed {
    use flatty_io::Sender;
    use std::io::{self, Write};

    struct FailN { left: usize, calls: usize }
    impl Write for FailN {
        fn write(&mut self, b: &[u8]) -> io::Result<usize> {
            self.calls += 1;
            if self.left > 0 { self.left -= 1; Err(io::ErrorKind::Other.into()) } else { Ok(b.len()) }
        }
        fn flush(&mut self) -> io::Result<()> { Ok(()) }
    }

    #[test]
    fn write_error_at_pos0_is_returned() {
        let mut sink = FailN { left: 1000, calls: 0 };
        {
            let mut s = Sender::<u32, _>::io(&mut sink, 4);
            let g = s.alloc().unwrap().new_in_place(7u32).unwrap();
            let r = g.send();
            assert!(r.is_err(), "send() returned Ok although the sink failed");
        }
        assert_eq!(sink.calls, 1, "sink called {} times", sink.calls);
    }
}
