"""debug: dump calls / conditions / returns of bodies in canonical form"""
import sys, os, re
sys.path.insert(0, os.path.dirname(os.path.abspath(__file__)))
from facts import Facts
from mir import Body
from e5_formulas import canon
d = sys.argv[1]
rx = re.compile(sys.argv[2])
F = Facts(d)
src = list(F.mono.values()) if '--mono' in sys.argv else F.bodies
for b in src:
    if not rx.search(b['id']):
        continue
    body = Body(b)
    print('==', b['id'], b['span'])
    for bb in range(body.n):
        if body.is_cleanup(bb): continue
        for i, s in enumerate(body.stmts(bb)):
            l = s['l']
            if l and (l['p'] or l['v'] == 0 or body.local_name(l['v'])):
                lhs = canon(body.expr_of_place(l)) if l['p'] else ('ret' if l['v'] == 0 else '%' + str(body.local_name(l['v'])))
                print('  bb%d  STORE %s := %s' % (bb, lhs, canon(body.expr_of_rvalue(s['r']))[:300]))
        t = body.term(bb)
        if isinstance(t, dict):
            if 'call' in t:
                print('  bb%d  CALL %s -> bb%s' % (bb, canon(body.expr_of_call(t, 0, bb))[:400], t['target']))
            elif 'switch' in t:
                print('  bb%d  SWITCH %s %s else bb%s' % (bb, canon(body.expr_of_operand(t['switch']))[:300], t['targets'], t['otherwise']))
            elif 'assert' in t:
                print('  bb%d  ASSERT %s %s' % (bb, t['assert']['msg'], [canon(body.expr_of_operand(o))[:100] for o in t['assert']['ops']]))
        elif t == 'return':
            print('  bb%d  return' % bb)
