"""E1: the library's evaluated constants against rustc's layout and against the plain C layout rule
(computed independently by corpus/gen.py from the declared field lists)."""
from facts import as_int


def ceil_mul(x, m):
    return (x + m - 1) // m * m


def _ty(F, nm):
    return F.tymarks.get("__ty_" + nm)


def layout_rules(F, R, portable_only=False, containers_only=False):
    man = F.manifest["types"]
    n_types = 0
    for nm, m in sorted(man.items()):
        ty = _ty(F, nm)
        if ty is None:
            R.anchor_lost("L", nm, "type marker __ty_%s missing from facts" % nm)
            continue
        lay = F.layouts.get(ty)
        cs = F.consts.get(ty)
        if lay is None or cs is None:
            R.anchor_lost("L", nm, "layout/consts of %s missing" % ty)
            continue
        if containers_only and m["kind"] not in ("vec", "string", "flex"):
            continue
        n_types += 1
        R.count("types_compared")
        d = m.get("def")
        # L1 alignment three ways
        a_lib, a_rustc, a_c = cs.get("ALIGN"), lay["align"], m["align"]
        R.ob("L1.align", nm, "ALIGN", a_lib == a_rustc == a_c,
             "%s: FlatBase::ALIGN %s = rustc align %s = C rule %s" % (nm, a_lib, a_rustc, a_c), where=ty)
        if m["sized"]:
            s_lib, s_rustc, s_c = cs.get("SIZE"), lay["size"], m["size"]
            R.ob("L2.size", nm, "SIZE", s_lib == s_rustc == s_c and cs.get("MIN_SIZE") == s_lib,
                 "%s: FlatSized::SIZE %s = MIN_SIZE %s = rustc size %s = C rule %s" % (nm, s_lib, cs.get("MIN_SIZE"), s_rustc, s_c), where=ty)
        if d is not None:
            _def_rules(F, R, nm, ty, d, m, lay, cs)
        elif m["kind"] in ("vec", "string", "flex"):
            _container_rules(F, R, nm, ty, m, lay, cs)
    R.floor("L", "corpus types with layout+consts", n_types, 20 if not containers_only else 10)


def _def_rules(F, R, nm, ty, d, m, lay, cs):
    repr_ = lay["repr"] or {}
    if d["kind"] == "struct":
        R.ob("L2.repr", nm, "repr", repr_.get("c") is True, "%s is #[repr(C)]" % nm, nontrivial=False, where=ty)
        offs_rustc = [f["offset"] for f in lay["fields"]]
        offs_c = [f["offset"] for f in d["fields"]]
        R.ob("L3.field-offsets", nm, "fields", offs_rustc == offs_c,
             "%s: rustc field offsets %s = C rule %s" % (nm, offs_rustc, offs_c), where=ty)
        tw = F.layouts.get(_ty(F, "Twin_" + nm) or "")
        if d["fields"]:
            if tw is None:
                R.anchor_lost("L3", nm, "twin layout missing")
            else:
                offs_tw = [f["offset"] for f in tw["fields"]]
                R.ob("L3.twin", nm, "twin", offs_tw == offs_rustc and tw["align"] == lay["align"],
                     "%s: offsets/align of the plain repr(C) twin %s/%s agree with the flat type %s/%s" % (
                         nm, offs_tw, tw["align"], offs_rustc, lay["align"]), where=ty)
        if not d["sized"]:
            lfo = cs.get("LAST_FIELD_OFFSET")
            R.ob("L3.last-field-offset", nm, "LAST_FIELD_OFFSET", lfo == offs_rustc[-1] == d["last_field_offset"],
                 "%s: LAST_FIELD_OFFSET %s = rustc offset of the last field %s = C rule %s" % (nm, lfo, offs_rustc[-1], d["last_field_offset"]),
                 where=ty)
            # L6: the smallest view fits in MIN_SIZE bytes: MIN_SIZE >= ceil(LFO + last.MIN_SIZE, ALIGN) and is what the C rule gives
            ms = cs.get("MIN_SIZE")
            need = ceil_mul(d["min_size_unrounded"], m["align"])
            R.ob("L6.min-size", nm, "MIN_SIZE", ms is not None and ms >= need and ms == m["min_size"],
                 "%s: MIN_SIZE %s covers the smallest view (ceil(%d, ALIGN %d) = %d)" % (nm, ms, d["min_size_unrounded"], m["align"], need),
                 where=ty)
    else:
        tagsz = {"u8": 1, "u16": 2, "u32": 4}[d["tag_eff"]]
        # L7: the tag values are the declared discriminants -- for the enum itself (sized: it is the user's repr(C, tag) enum) and for
        # the generated <Name>Tag helper the validator and the initialiser use (an omitted discriminant continues +1, like rustc's)
        want, nxt = [], 0
        for v in d["variants"]:
            if v.get("discr") is not None:
                nxt = v["discr"]
            want.append(nxt)
            nxt += 1
        dn = d.get("generic") or nm
        for adt_name, what in (("flatty_corpus::" + dn, "the enum"), ("flatty_corpus::%sTag" % dn, "the generated tag helper")):
            adt = F.adts.get(adt_name)
            if not adt or adt.get("adt_kind") != "enum":
                continue
            got = [int(v["discr"]) if v["discr"] is not None else None for v in adt["variants"]]
            R.ob("L7.tag-discriminants", nm, adt_name.split("::")[-1], got == want,
                 "%s: discriminants of %s %s = declared %s" % (nm, what, got, want), where=ty)
        if d["sized"]:
            if d["c_like"]:
                R.ob("L2.repr", nm, "repr", repr_.get("int") is not None and ("I%d" % (8 * tagsz)) in repr_["int"],
                     "%s is #[repr(%s)] (%s)" % (nm, d["tag_eff"], repr_.get("int")), nontrivial=False, where=ty)
            else:
                R.ob("L2.repr", nm, "repr", repr_.get("c") is True and repr_.get("int") is not None and ("I%d" % (8 * tagsz)) in repr_["int"],
                     "%s is #[repr(C, %s)] (%s)" % (nm, d["tag_eff"], repr_), nontrivial=False, where=ty)
            do = cs.get("DATA_OFFSET")
            R.ob("L4.data-offset", nm, "DATA_OFFSET", do == d["data_offset"] or d["c_like"],
                 "%s: DATA_OFFSET %s = C rule %s" % (nm, do, d["data_offset"]), where=ty)
            if not d["c_like"]:
                for v, lv in zip(d["variants"], lay["variants"]):
                    o_r = [f["offset"] for f in lv["fields"]]
                    o_c = [d["data_offset"] + f["offset"] for f in v["fields"]]
                    R.ob("L4.variant-offsets", nm, "variant " + v["name"], o_r == o_c,
                         "%s::%s: rustc payload offsets %s = DATA_OFFSET + C rule %s" % (nm, v["name"], o_r, o_c), where=ty)
            # discriminants 0..n-1 as the tag validator assumes (explicit discriminants are a separate rule)
        else:
            do = cs.get("DATA_OFFSET")
            off_data = [f["offset"] for f in lay["fields"] if f["name"] == "data"]
            off_tag = [f["offset"] for f in lay["fields"] if f["name"] == "tag"]
            R.ob("L4.data-offset", nm, "DATA_OFFSET", off_data and do == off_data[0] == d["data_offset"] and off_tag == [0],
                 "%s: DATA_OFFSET %s = rustc offset of the payload %s = C rule %s; tag at 0" % (nm, do, off_data, d["data_offset"]), where=ty)
            dms = cs.get("DATA_MIN_SIZES")
            R.ob("L4.data-min-sizes", nm, "DATA_MIN_SIZES", dms == d["data_min_sizes"],
                 "%s: DATA_MIN_SIZES %s = C rule %s" % (nm, dms, d["data_min_sizes"]), where=ty)
            ms = cs.get("MIN_SIZE")
            R.ob("L6.min-size", nm, "MIN_SIZE", ms == m["min_size"] and ms is not None and ms % m["align"] == 0 and ms >= do,
                 "%s: MIN_SIZE %s = ceil(DATA_OFFSET + min variant, ALIGN) = %s" % (nm, ms, m["min_size"]), where=ty)
            R.ob("L2.repr", nm, "repr", repr_.get("c") is True, "%s (generated struct) is #[repr(C)]" % nm, nontrivial=False, where=ty)
            for v in d["variants"]:
                if not v["fields"]:
                    continue
                tw = F.layouts.get(_ty(F, "Twin_%s_%s" % (nm, v["name"])) or "")
                if tw is None:
                    R.anchor_lost("L4", nm, "variant twin missing")
                    continue
                o_tw = [f["offset"] for f in tw["fields"]]
                o_c = [f["offset"] for f in v["fields"]]
                R.ob("L4.variant-offsets", nm, "variant " + v["name"], o_tw == o_c,
                     "%s::%s: offsets of the repr(C) twin of the declared field list %s = C rule %s" % (nm, v["name"], o_tw, o_c), where=ty)


def _container_rules(F, R, nm, ty, m, lay, cs):
    repr_ = lay["repr"] or {}
    if m["kind"] in ("vec", "string"):
        R.ob("L5.transparent", nm, "repr", repr_.get("transparent") is True, "%s is #[repr(transparent)] over the stavec vector" % nm,
             nontrivial=False, where=ty)
        inner_ty = lay["fields"][0]["ty"] if lay["fields"] else None
        inner = F.layouts.get(inner_ty or "")
        if m["kind"] == "string" and inner is not None and inner["fields"]:
            # GenericString { vec: GenericVec<[u8], L> }
            inner2 = F.layouts.get(inner["fields"][0]["ty"])
            base_off = inner["fields"][0]["offset"]
            inner = inner2
        else:
            base_off = 0
        ok = False
        txt = "inner layout missing"
        if inner is not None:
            f = {x["name"]: x for x in inner["fields"]}
            if "len" in f and "data" in f:
                do = cs.get("DATA_OFFSET")
                ok = (f["len"]["offset"] + base_off == 0 and do == f["data"]["offset"] + base_off == m["data_offset"]
                      and (inner["repr"] or {}).get("c") is True and cs.get("MIN_SIZE") == do)
                txt = "DATA_OFFSET %s = rustc offset of GenericVec.data %s = C rule %s; len at 0; GenericVec repr(C) %s; MIN_SIZE %s" % (
                    do, f["data"]["offset"] + base_off, m["data_offset"], (inner["repr"] or {}).get("c"), cs.get("MIN_SIZE"))
        R.ob("L5.header", nm, "DATA_OFFSET", ok, "%s: %s" % (nm, txt), where=ty)
        # own-bytes round trip on the frozen formulas (F1): from(to(cap)) == cap for the instance's constants
        if m["kind"] == "vec" and m.get("elem_size"):
            a, off, sz = m["align"], m["data_offset"], m["elem_size"]
            bad = []
            for room in range(0, 200):
                cap = (room // a * a) // sz                    # capacities a mapped view can have: ptr_from_bytes (F1 formula)
                to_len = ceil_mul(off + cap * sz, a)          # ptr_to_bytes (F1 formula)
                back = ((to_len - off) // a * a) // sz         # ptr_from_bytes again
                if back != cap or to_len > off + room // a * a:
                    bad.append((cap, to_len, back))
            R.ob("F1.own-bytes-roundtrip", nm, "capacity", not bad and off % a == 0,
                 "%s: with DATA_OFFSET %d, SIZE %d, ALIGN %d the value's own bytes stay inside the mapped slice and map back to the same capacity for every slice length 0..199 "
                 "(arithmetic on the F1 formulas)%s" % (nm, off, sz, a, "" if not bad else " -- fails for %s" % bad[:3]), where=ty)
        R.ob("L5.len-fits", nm, "L::SIZE", m["len_size"] <= m["data_offset"], "%s: the length word (%d bytes) fits before the data (%d)" % (
            nm, m["len_size"], m["data_offset"]), nontrivial=False, where=ty)
    else:
        os_ = cs.get("OFFSET_SIZE")
        a = m["align"]
        ok = (os_ == m["offset_size"] and os_ % m["elem_align"] == 0 and os_ >= m["len_size"] and os_ % a == 0
              and cs.get("MIN_SIZE") == os_ and [f["offset"] for f in lay["fields"] if f["name"] == "data"] == [0])
        R.ob("L5.flex-slot", nm, "OFFSET_SIZE", ok,
             "%s: OFFSET_SIZE %s = C rule %s, multiple of item align %d and of ALIGN %d, holds the offset word (%d bytes); MIN_SIZE %s; data at 0" % (
                 nm, os_, m["offset_size"], m["elem_align"], a, m["len_size"], cs.get("MIN_SIZE")), where=ty)


def portable_rules(F, R):
    """C17: align 1, no padding for every corpus type implementing Portable; manifest agreement both ways."""
    man = F.manifest["types"]
    n = 0
    slack_types = []
    for nm, m in sorted(man.items()):
        ty = _ty(F, nm)
        if ty is None or ty not in F.traits_of:
            continue
        is_p = "flatty_portable::Portable" in F.traits_of[ty]
        R.ob("P0.portable-iff", nm, "impl Portable", is_p == m["portable"],
             "%s: implements Portable = %s, declared/expected %s" % (nm, is_p, m["portable"]), nontrivial=False, where=ty)
        if not is_p:
            continue
        n += 1
        lay, cs = F.layouts[ty], F.consts[ty]
        R.ob("P1.align1", nm, "ALIGN", cs.get("ALIGN") == 1 and lay["align"] == 1,
             "%s: Portable => ALIGN 1 (lib %s, rustc %s)" % (nm, cs.get("ALIGN"), lay["align"]), where=ty)
        d = m.get("def")
        if d is not None and d["kind"] == "struct":
            sizes = []
            pos = 0
            ok = True
            for f, lf in zip(d["fields"], lay["fields"]):
                if lf["offset"] != pos:
                    ok = False
                fl = F.layouts.get(lf["ty"])
                pos += (fl["size"] if fl and fl["sized"] else 0)
            if d["sized"]:
                ok = ok and lay["size"] == pos
            else:
                ok = ok and cs.get("LAST_FIELD_OFFSET") == lay["fields"][-1]["offset"]
            R.ob("P2.no-padding", nm, "fields", ok, "%s: every field starts where the previous one ends (no padding)" % nm, where=ty)
        elif d is not None and d["kind"] == "enum":
            tagsz = {"u8": 1, "u16": 2, "u32": 4}[d["tag_eff"]]
            ok = cs.get("DATA_OFFSET") == tagsz or d["c_like"]
            for v in d["variants"]:
                pos = 0
                for f in v["fields"]:
                    if f["offset"] != pos:
                        ok = False
                    pos = f["offset"] + (f["size"] or 0)
                # C rule offsets already equal rustc's (L4); packedness = each offset equals the sum of previous sizes
            R.ob("P2.no-padding", nm, "payload", ok, "%s: payload starts right after the tag (DATA_OFFSET %s = tag size %d)" % (
                nm, cs.get("DATA_OFFSET"), tagsz), where=ty)
            if d["sized"] and not d["c_like"]:
                full = lay["size"] - tagsz
                short = [v["name"] for v in d["variants"] if sum((f["size"] or 0) for f in v["fields"]) != full]
                if short:
                    slack_types.append("%s (%s)" % (nm, ", ".join(short)))
        elif m["kind"] in ("vec", "string"):
            R.ob("P2.no-padding", nm, "header", cs.get("DATA_OFFSET") == m["len_size"],
                 "%s: data starts right after the length word (DATA_OFFSET %s = %d)" % (nm, cs.get("DATA_OFFSET"), m["len_size"]), where=ty)
        elif m["kind"] == "flex":
            R.ob("P2.no-padding", nm, "slot", cs.get("OFFSET_SIZE") == m["len_size"],
                 "%s: item payload starts right after the offset word (OFFSET_SIZE %s = %d)" % (nm, cs.get("OFFSET_SIZE"), m["len_size"]), where=ty)
    # a sized enum has the size of its largest variant: the bytes behind a shorter variant's payload belong to the value but to no field
    R.ob("P2.variant-slack", "<sized portable enums>", "inactive-payload-bytes", not slack_types,
         "sized portable enums whose variants have different payload sizes carry unspecified bytes behind the shorter variants (as_bytes()/size() cover them): "
         "the image is not a function of the content alone -- %d corpus types: %s" % (len(slack_types), "; ".join(slack_types)[:300]))
    R.floor("P", "portable corpus types", n, 8)
    # base impls: every `unsafe impl Portable` in flatty_portable has an align-1 self type
    nb = 0
    for im in F.impls:
        if im["trait"] == "flatty_portable::Portable" and im["krate"] == "flatty_portable":
            nb += 1
            st = im["self"]
            preds = im["predicates"]
            generic_ok = True
            if im["self_adt"] in ("flatty_containers::vec::FlatVec", "flatty_containers::flex::FlexVec"):
                generic_ok = any(p.startswith("T: flatty_portable::Portable") for p in preds) and any(p.startswith("L: flatty_portable::Portable") for p in preds)
            elif im["self_adt"] == "flatty_containers::string::FlatString":
                generic_ok = any(p.startswith("L: flatty_portable::Portable") for p in preds)
            elif st.startswith("[T; N]") or st.startswith("core::marker::PhantomData<T>"):
                generic_ok = any(p.startswith("T: flatty_portable::Portable") for p in preds)
            elif im["self_adt"] in ("flatty_portable::int::Int", "flatty_portable::float::Float", "flatty_portable::bool_::Bool") or st in ("()", "u8", "i8"):
                generic_ok = True
            else:
                generic_ok = False
            R.ob("P3.base-impls", "flatty_portable", "impl Portable for " + st, generic_ok,
                 "impl Portable for %s: %s" % (st, "parameters are required to be Portable / base type has align 1 by construction" if generic_ok
                                                else "unexpected Portable impl or missing Portable bound on a parameter: %s" % preds),
                 where=im["span"])
    R.floor("P3", "Portable impls in flatty_portable", nb, 10)
    # generated impls in the corpus: a where-predicate `F: Portable` for every declared field type
    ng = 0
    for im in F.impls:
        if im["trait"] == "flatty_portable::Portable" and im["krate"] == "flatty_corpus":
            nm = im["self"].split("::")[-1]
            m = man.get(nm)
            if not m or not m.get("def"):
                continue
            ng += 1
            d = m["def"]
            fields = d["fields"] if d["kind"] == "struct" else [f for v in d["variants"] for f in v["fields"]]
            preds = [p for p in im["predicates"] if p.endswith(": flatty_portable::Portable")]
            R.ob("P4.generated-bounds", nm, "where-clause", len(preds) >= len(set(f["ty"] for f in fields)) or not fields,
                 "%s: generated Portable impl constrains every field type (%d predicates, %d distinct field types)" % (
                     nm, len(preds), len(set(f["ty"] for f in fields))), where=im["span"])
    R.floor("P4", "generated Portable impls", ng, 5)


def impl_bound_rules(F, R):
    """B2: the generated `unsafe impl Flat / FlatBase / FlatValidate / FlatUnsized` of every corpus definition carries a where-predicate
    `<field type>: <that trait>` for every declared field type (manifest), i.e. a composite is flat only if each of its parts is.
    `Flat` is a marker without methods, so nothing else in the build notices when its bounds are weakened."""
    from e6_generated import strip_paths
    man = F.manifest["types"]
    want = {"flatty_base::traits::Flat": ("Flat", "Flat"), "flatty_base::traits::FlatValidate": ("FlatValidate", "FlatValidate"),
            "flatty_base::traits::FlatBase": ("FlatBase", "FlatBase")}
    n = 0
    seen = {}
    for im in F.impls:
        if im["krate"] != "flatty_corpus" or im["trait"] not in want:
            continue
        nm = im["self"].split("::")[-1]
        m = man.get(nm)
        if not m or not m.get("def"):
            continue
        d = m["def"]
        fields = d["fields"] if d["kind"] == "struct" else [f for v in d["variants"] for f in v["fields"]]
        tr = want[im["trait"]][0]
        have = set()
        for p in im["predicates"]:
            if ": " not in p:
                continue
            lhs, rhs = p.rsplit(": ", 1)
            if rhs.split("::")[-1] in (tr, "FlatUnsized" if tr == "FlatBase" else tr):
                have.add(strip_paths(lhs))
        missing = sorted({strip_paths(f["fty"]) for f in fields} - have)
        seen.setdefault(tr, 0)
        seen[tr] += 1
        n += 1
        R.ob("B2.impl-bounds", nm, "impl " + tr, not missing,
             "%s: generated impl %s requires `%s` of every field type%s" % (nm, tr, tr, "" if not missing else " -- missing for %s" % missing), where=im["span"])
    R.floor("B2", "generated marker/validate/base impls with declared fields", n, 60)
    for tr in ("Flat", "FlatValidate"):
        R.floor("B2." + tr, "generated impl %s" % tr, seen.get(tr, 0), 30)
