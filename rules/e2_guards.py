"""E2: risky-site inventory with checked discharge (no panic / no OOB / termination on the paths of a root set).

Every site (assert, diverging call, panicking boundary call, unsafe call or raw deref in a safe fn) found in the
workspace / generated / stavec code that is reachable (monomorphic call graph) from the chosen roots must be
discharged by a table row (with a checked predicate) or by a generic tactic; anything else is reported.
"""
import re
from mir import Body, strip
from paths import events, bool_taken, norm_cmp, call_matches, find_calls
from e5_formulas import canon, short, gated_call
import e2_sites

SAFE_LEN_TYPES = ("u8", "u16", "u32", "u64", "usize",
                  "flatty_portable::int::Int<false, 2, false>", "flatty_portable::int::Int<false, 4, false>",
                  "flatty_portable::int::Int<false, 8, false>", "flatty_portable::int::Int<true, 2, false>",
                  "flatty_portable::int::Int<true, 4, false>", "flatty_portable::int::Int<true, 8, false>",
                  # the corpus' own 3-byte length type (corpus/gen.py U24_PRELUDE): to_u64 is Some(24-bit value), so to_usize never fails
                  "flatty_corpus::U24")


class Ctx:
    def __init__(self, F, R, reach_defs, poly):
        self.F, self.R, self.reach_defs, self.poly = F, R, reach_defs, poly


# ---------------------------------------------------------------- discharge tactics

def lemma(text):
    def h(ctx, bj, body, site):
        ctx.R.assume("lemma: " + text)
        return True, "lemma: " + text
    return h


# unsafe fns that make unsafe calls on operands DERIVED from their parameters (sub-slices, offsets, elements):
# the enclosing contract alone does not cover those; each such function is pinned by an exact shape/formula rule.
DERIVED_COVERED = [
    (r"FoldSizeIter>::fold_size$", "F1.formula (size folds)"),
    (r"::(vec|string|flex)::Empty as flatty_base::emplacer::Emplacer<.*>>::emplace_unchecked$", "D3.empty-writes-zero"),
    (r"flex::FromIterator<T, E, I> as flatty_base::emplacer::Emplacer<.*>>::emplace_unchecked$", "P6.*, F4.*, R3.*"),
    (r"(vec::FlatVec<T, L>|string::FlatString<L>|flex::FlexVec<T, L>) as flatty_base::traits::FlatValidate>::validate_unchecked$", "V1/V3/V4/V5 container validators"),
    (r"FlatValidate for \[T; N\]>::validate_unchecked$", "V1.array-elements"),
    (r"flatty_base::traits::FlatValidate::validate_ptr$", "F7.method"),
    (r"flatty_base::traits::FlatUnsized::(from_bytes_unchecked|from_mut_bytes_unchecked|as_mut_bytes)$", "F7.method"),
    (r"flatty_base::utils::mem::", "F1.formula (pointer helpers)"),
    (r"(vec::FlatVec<T, L>|string::FlatString<L>|flex::FlexVec<T, L>) as flatty_base::traits::FlatUnsized>::ptr_(from|to)_bytes$", "F1.formula (view extents)"),
    (r"^<T as flatty_base::emplacer::Emplacer<T>>::emplace_unchecked$", "F7.sized-emplacer"),
    (r"^<T as flatty_base::traits::FlatUnsized>::ptr_(from|to)_bytes$", "F1.formula"),
    (r"flatty_portable::bool_::Bool as flatty_base::traits::FlatValidate>::validate_unchecked$", "V2.tag-accept-set"),
    (r"utils::iter::Unchecked(Ref|Mut)Data::<'a>::new$", "P7.unchecked-views"),
    (r"flatty_io::.*SendGuard::<'a, M, B, false>::assume_init$", "io typestate (unsafe fn, documented)"),
    (r"flatty_containers::wrap::FlatWrap::<F, P>::from_wrapped_bytes_unchecked$", "F7.wrap-callers"),
    (r"utils::iter::DataIter::<'a, D, I>::new_unchecked$", "F1.formula"),
]
GEN_COVERED = {"validate_unchecked": "F6.validate-*, V5, G2", "emplace_unchecked": "F6.init-*, V5i, R1", "ptr_from_bytes": "F1.enum-view / F1.struct-view",
               "ptr_to_bytes": "F1.enum-bytes / F1.struct-bytes"}


def contract(text):
    def h(ctx, bj, body, site):
        if not bj["unsafe"]:
            return False, "site is in a safe fn: a contract cannot discharge it"
        if site["kind"] == "unsafe-call":
            direct = all(re.fullmatch(r"\$\w+(\.\d+)?|[\w:]+\{\}|[0-9]+", a) for a in site["ops"])  # params, unit structs, literals
            if not direct:
                if bj["krate"] == "flatty_corpus" and bj.get("impl"):
                    cov = GEN_COVERED.get(bj["impl"].get("method") or "")
                else:
                    cov = None
                    for dre, why in DERIVED_COVERED:
                        if re.search(dre, bj["def"]):
                            cov = why
                            break
                if cov is None:
                    return False, ("unsafe call on an operand derived from the parameters inside an unsafe fn that no shape rule covers: "
                                   "the enclosing contract does not extend to sub-slices / offsets")
                return True, "contract of unsafe fn (%s); the derived operand is pinned by %s" % (text, cov)
        return True, "contract of unsafe fn (%s); callers are gated (G1) or are unsafe themselves" % text
    return h


def gate(gate_name, unchecked_name):
    def h(ctx, bj, body, site):
        return gated_call(body, gate_name, unchecked_name)
    return h


def invariant(name, text):
    def h(ctx, bj, body, site):
        ctx.R.assume("invariant %s: %s" % (name, text))
        return True, "invariant %s: %s" % (name, text)
    return h


def path_facts(body, path):
    facts = []
    for ev in events(body, path):
        if ev.kind == "branch":
            bt = bool_taken(ev)
            if bt is not None:
                n = norm_cmp(ev.a, bt)
                if n:
                    facts.append((n[0], canon(n[1]), canon(n[2])))
    return facts


def dom_cmp(bound_of, len_of):
    """Every path to the site has a fact bound <= len (or bound < len)."""
    def h(ctx, bj, body, site):
        bound, ln = bound_of(site), len_of(site)
        n = 0
        for p in body.paths(0, stop=[site["bb"]]):
            if p[-1] != site["bb"]:
                continue
            n += 1
            fs = path_facts(body, p)
            if not any(f in (("Le", bound, ln), ("Lt", bound, ln)) for f in fs):
                return False, "no dominating comparison %s <= %s on path %s" % (bound, ln, p)
        return n > 0, "every path (%d) to the site establishes %s <= %s" % (n, bound, ln)
    return h


def align_divisor(ctx, bj, body, site):
    """ceil_mul / floor_mul divide by m: every call site reachable passes an alignment (>= 1)."""
    name = bj["def"].split("::")[-1]
    bad = []
    n = 0
    for d in ctx.reach_defs:
        pb = ctx.poly.get(d)
        if not pb:
            continue
        b2 = Body(pb)
        for bb, t in find_calls(b2, "flatty_base::utils::" + name):
            e = b2.expr_of_call(t, 0, bb)
            m = canon(e[3][1])
            n += 1
            ok = m.endswith("::ALIGN") or m.endswith("ALIGN") or re.fullmatch(r"[1-9][0-9]*", m) or "TypeIter::align(" in m or \
                (name in ("ceil_mul", "floor_mul") and m == "$m")
            if not ok:
                bad.append((short(pb["id"]), m))
    return not bad, "all %d call sites pass an alignment as the divisor%s" % (n, "" if not bad else " -- except %s" % bad)


def len_width(ctx, bj, body, site):
    """stavec len()/capacity(): to_usize().unwrap() is total iff the length type is not wider than usize."""
    lty = None
    for a in bj.get("args", []):
        lty = a
    ok = lty in SAFE_LEN_TYPES
    return ok, "length type %s %s" % (lty, "converts to usize for every value" if ok else "is wider than usize: to_usize() can be None")


def flex_next_split(ctx, bj, body, site):
    """flex::DataIter::next: split(data, item_len) and split(data', OFFSET_SIZE)."""
    ops = site["ops"]
    take = "(<core::option::Option<T> as core::ops::try_trait::Try>::branch(core::option::Option::<T>::take($self.0)) as Continue).0"
    ln = "core::slice::<impl [T]>::len(iter::Data::bytes(%s))" % take
    n = 0
    for p in body.paths(0, stop=[site["bb"]]):
        if p[-1] != site["bb"]:
            continue
        n += 1
        fs = path_facts(body, p)
        # reaching definition of item_len on this path
        item_len = None
        for ev in events(body, p):
            if ev.kind == "assign" and not ev.a["p"] and body.local_name(ev.a["v"]) == "item_len":
                item_len = canon(body.expr_of_rvalue(ev.b))
        if item_len is None:
            return False, "item_len has no definition on path %s" % p
        bounded = item_len == ln or ("Le", item_len, ln) in fs
        if not bounded:
            return False, "item_len (%s) is not bounded by the remaining length on path %s" % (item_len[:60], p)
        if ops[1] == "%item_len":
            if ops[0] != take:
                return False, "split receiver is not the slice whose length bounds item_len"
        else:
            # split(data', OFFSET_SIZE): needs OFFSET_SIZE <= item_len and data' of length item_len
            if ("Le", "fc::flex::FlexVec::<T, L>::OFFSET_SIZE", "%item_len") not in fs:
                return False, "payload split not guarded by OFFSET_SIZE <= item_len on path %s" % p
    return n > 0, "every path (%d) bounds the split position by the length of the slice being split" % n


def tag_index(ctx, bj, body, site):
    """DATA_MIN_SIZES[i]: the index is the constant position of the variant (never the tag value, which need not be 0..n-1 when
    discriminants are explicit) and is below the constant array length."""
    ops = site["ops"]
    if len(ops) == 2 and re.fullmatch(r"[0-9]+", ops[0] or "") and re.fullmatch(r"[0-9]+", ops[1] or ""):
        return int(ops[1]) < int(ops[0]), "constant index %s into an array of %s entries" % (ops[1], ops[0])
    return False, "array index is not a constant position (%s): a tag value is not bounded by the number of variants" % (ops,)


def generic(ctx, bj, body, site):
    """Generic tactics for unlisted sites."""
    k, what, ops = site["kind"], site["what"], site["ops"]
    if k == "assert" and what.startswith("Overflow(Add)") or what.startswith("Overflow(Mul)"):
        return lemma("sums/products of in-slice offsets, sizes and lengths cannot overflow usize (every operand <= isize::MAX)")(ctx, bj, body, site)
    if k == "assert" and what.startswith("BoundsCheck") and len(ops) == 2 and re.fullmatch(r"[0-9]+", ops[0] or "") and re.fullmatch(r"[0-9]+", ops[1] or ""):
        return int(ops[1]) < int(ops[0]), "constant index %s into an array of %s entries" % (ops[1], ops[0])
    if k == "assert" and what == "OverflowNeg" and ops and re.fullmatch(r"\(([0-9]+) as isize\)", ops[0] or ""):
        return True, "negation of a small non-negative constant cannot overflow"
    if k == "assert" and what == "OverflowNeg" and ops and re.fullmatch(r"\([\w:]+(::<[^()]*>)?::LAST_FIELD_OFFSET as (isize)?\)", ops[0] or ""):
        # generic definitions: the constant is not evaluated in the polymorphic body
        return lemma("LAST_FIELD_OFFSET is the offset of a field inside the type (E1 L3.last-field-offset: equal to rustc's field offset for the "
                     "instantiations of the corpus), hence <= isize::MAX: the cast is non-negative and its negation cannot overflow")(ctx, bj, body, site)
    if k == "assert" and what in ("DivisionByZero", "RemainderByZero") and ops and re.fullmatch(r"[0-9]+", ops[-1] or ""):
        return int(ops[-1]) != 0, "constant divisor %s" % ops[-1]
    if k == "assert" and what in ("DivisionByZero", "RemainderByZero") and site.get("cond"):
        # the asserted condition is `divisor == 0` expected false; in monomorphic code an alignment / size constant is a literal
        m_ = re.fullmatch(r"Eq\(([0-9]+), 0\)|Eq\(0, ([0-9]+)\)", site["cond"])
        if m_ and site.get("expected") is False:
            dv = int(m_.group(1) or m_.group(2))
            return dv != 0, "constant divisor %d (the asserted `divisor == 0` is decided at compile time)" % dv
        if site.get("expected") is False and re.fullmatch(r"Eq\(0, <[^()]* as FlatBase>::ALIGN\)|Eq\(<[^()]* as FlatBase>::ALIGN, 0\)", site["cond"]):
            return lemma("the divisor is a FlatBase::ALIGN constant: a type alignment (E1 L1: equal to rustc's alignment of the type), never 0")(ctx, bj, body, site)
    if k == "panicky" and len(ops) >= 2 and ("split_at" in what or "Data::split" in what):
        return dom_cmp(lambda s: s["ops"][1], lambda s: "core::slice::<impl [T]>::len(%s)" % s["ops"][0])(ctx, bj, body, site)
    if k == "unsafe-call" and bj["unsafe"]:
        return contract("unsafe fn")(ctx, bj, body, site)
    if k == "raw-deref" and bj["unsafe"]:
        return contract("unsafe fn")(ctx, bj, body, site)
    return False, "no discharge known for this site"


# ---------------------------------------------------------------- the table (function def regex, kind, what regex, ops regex | None, handler, reason)

T = [
    (r"^<&'a (mut )?\[u8\] as flatty_base::utils::iter::Data<'a>>::split$", "panicky", r"split_at", None,
     lemma("forwarding wrapper: Data::split(self, pos) = split_at(self, pos); the obligation pos <= len is lifted to every caller of Data::split"),
     "forwarder"),
    (r"^<flatty_base::utils::iter::(Ref|Mut|UncheckedRef|UncheckedMut)Data<'a> as flatty_base::utils::iter::Data<'a>>::split$", "panicky", r"Data<'a>>::split|Data::split", None,
     lemma("forwarding wrapper over the inner slice's Data::split"), "forwarder"),
    (r"utils::iter::DataIter::<'a, D, flatty_base::utils::iter::TwoOrMoreTypes<T, I>>::next$", "panicky", r"Data::split", None,
     invariant("I1", "DataIter data holds at least min_size of the remaining list (checked at construction by the list gate; F3: positions follow the same recurrence as min_size)"),
     "split at next_pos - prev_pos"),
    (r"utils::iter::DataIter::<'a, D, flatty_base::utils::iter::TwoOrMoreTypes<T, I>>::next$", "assert", r"Overflow\(Sub\)", None,
     lemma("PosIter positions are non-decreasing (F3: next = ceil(pos + SIZE, ALIGN))"), "next_pos - prev_pos"),
    (r"flex::<impl core::iter::traits::iterator::Iterator for flatty_containers::flex::DataIter<'a, T, L, D>>::next$|flex::DataIter<'a, T, L, D> as core::iter::traits::iterator::Iterator>::next$", "panicky", r"Data::split", None,
     flex_next_split, "offset chain walk"),
    (r"utils::ceil_mul$|utils::floor_mul$", "assert", r"DivisionByZero", None, align_divisor, "divisor is an alignment"),
    (r"utils::ceil_mul$", "assert", r"Overflow\(Sub\)", None, align_divisor, "x + m - 1 with m >= 1"),
    (r"traits::FlatValidate::validate$", "unsafe-call", r"validate_unchecked", None, gate("check_align_and_min_size", "FlatValidate::validate_unchecked"), "G1"),
    (r"traits::FlatValidate::from_bytes$", "unsafe-call", r"from_bytes_unchecked", None, gate("FlatValidate::validate", "FlatUnsized::from_bytes_unchecked"), "G1"),
    (r"traits::FlatValidate::from_mut_bytes$", "unsafe-call", r"from_mut_bytes_unchecked", None, gate("FlatValidate::validate", "FlatUnsized::from_mut_bytes_unchecked"), "G1"),
    (r"emplacer::Emplacer::emplace$", "unsafe-call", r"emplace_unchecked", None, gate("check_align_and_min_size", "Emplacer::emplace_unchecked"), "G1"),
    (r"traits::FlatUnsized::new_in_place$", "unsafe-call", r"from_mut_bytes_unchecked", None, gate("Emplacer::emplace", "FlatUnsized::from_mut_bytes_unchecked"), "G1"),
    (r"utils::iter::DataIter::<'a, D, I>::new$", "unsafe-call", r"new_unchecked", None, gate("TypeIter::check_align_and_min_size", "new_unchecked"), "G1"),
    (r"ValidateIter>::validate_all$|ValidateIter for .*>::validate_all$", "unsafe-call", r"validate_unchecked", None,
     invariant("I1", "the walker's current slice starts aligned for the item and holds the rest of the list"), "I1"),
    (r"vec::<impl flatty_base::traits::FlatUnsized for flatty_containers::vec::FlatVec<T, L>>::ptr_from_bytes$|string::<impl flatty_base::traits::FlatUnsized for flatty_containers::string::FlatString<L>>::ptr_from_bytes$|FlatVec<T, L> as flatty_base::traits::FlatUnsized>::ptr_from_bytes$|FlatString<L> as flatty_base::traits::FlatUnsized>::ptr_from_bytes$",
     "assert", r"Overflow\(Sub\)", None,
     contract("len >= MIN_SIZE and MIN_SIZE = DATA_OFFSET (E1 L5)"), "len - DATA_OFFSET"),
    (r"utils::mem::offset_slice_ptr_start", "assert", r"Overflow\(Sub\)", None,
     contract("count <= len (generated callers pass LAST_FIELD_OFFSET <= MIN_SIZE: E1 L6)"), "len - count"),
    (r"stavec::generic::GenericVec::<C, L>::(len|capacity)$", "panicky", r"unwrap", None, len_width, "to_usize().unwrap()"),
    (r"stavec::generic::GenericVec::<C, L>::remaining$", "panicky", r"unwrap", None, len_width, "to_usize().unwrap()"),
]

def uninhabited_receiver(ctx, bj, body, site):
    a = ctx.F.adts.get("flatty_base::emplacer::NeverEmplacer")
    ok = a is not None and a["adt_kind"] == "enum" and len(a["variants"]) == 0 and bj["locals"][1]["ty"] == "flatty_base::emplacer::NeverEmplacer"
    return ok, "receiver type NeverEmplacer is an empty enum: the function cannot be called"


T += [
    (r"^<flatty_base::emplacer::NeverEmplacer as flatty_base::emplacer::Emplacer<T>>::emplace_unchecked$", "diverge", r"panic", None, uninhabited_receiver, "unreachable!()"),
    (r"^<flatty_base::utils::iter::Unchecked(Ref|Mut)Data<'a> as flatty_base::utils::iter::Data<'a>>::value$", "unsafe-call", r"from_(mut_)?bytes_unchecked", None,
     invariant("I2", "Unchecked*Data can only be made by the unsafe fn new (P7: callers are FlatVec::iter/iter_mut and generated accessors on an existing valid &self)"), "I2"),
    (r"^flatty_containers::flex::FlexVec::<T, L>::(len|iter|iter_mut|truncate|bytes_iter)|^<flatty_containers::flex::FlexVec<T, L> as flatty_base::traits::FlatBase>::size$|^flatty_containers::flex::FlexVec::<T, L>::(iter|iter_mut)::\{closure#0\}$",
     "panicky", r"unwrap", None,
     invariant("I3", "&self is a valid FlexVec (validated or emplaced): its chain walk yields no Err, its slots hold L values, its items validate"), "I3"),
    (r"^flatty_containers::flex::FlexVec::<T, L>::(iter|iter_mut)$", "unsafe-call", r"Unchecked(Ref|Mut)Data::<'a>::new", None,
     invariant("I3", "&self is a valid FlexVec"), "I3"),
    (r"^flatty_containers::flex::FlexVec::<T, L>::truncate$", "unsafe-call", r"drop_in_place", None,
     invariant("I3", "items yielded by iter_mut of a valid FlexVec are valid T"), "I3"),
    (r"^flatty_containers::flex::FlexVec::<T, L>::push$", "panicky", r"::index$|::index_mut$|split_at_mut|unwrap", None,
     invariant("I3", "&mut self is a valid FlexVec: stored extents lie inside the data, the sealed extent of the last item does too (C05: size() <= mapped bytes)"), "I3"),
    (r"^flatty_containers::flex::FlexVec::<T, L>::pop$", "assert", r"Overflow\(Sub\)", None,
     dom_cmp(lambda s: "1", lambda s: s["ops"][0]) if False else lemma("len - 1 under the branch len > 0"), "len-1"),
    (r"^flatty_containers::flex::FlexVec::<T, L>::truncate$", "assert", r"Overflow\(Sub\)", None, lemma("len - 1 under the branch len > 0"), "len-1"),
    (r"^<flatty_containers::flex::FromIterator<T, E, I> as flatty_base::emplacer::Emplacer<flatty_containers::flex::FlexVec<T, L>>>::emplace_unchecked$", "panicky", r"split_at_mut", r"ceil_mul",
     invariant("I2", "item.size() <= len(payload) (C04/C05: a mapped value never claims more than its slice) and len(payload) is a multiple of ALIGN"), "payload split"),
    (r"^<flatty_containers::flex::FromIterator<T, E, I> as flatty_base::emplacer::Emplacer<flatty_containers::flex::FlexVec<T, L>>>::emplace_unchecked$", "panicky", r"split_at_mut", r"OFFSET_SIZE$",
     dom_cmp(lambda s: s["ops"][1], lambda s: "core::slice::<impl [T]>::len(%s)" % s["ops"][0]), "slot split"),
    (r"^<flatty_containers::bytes::AlignedBytes as core::convert::As(Ref|Mut)<\[u8\]>>::as_(ref|mut)$", "unsafe-call", r"from_raw_parts", None,
     invariant("I5", "AlignedBytes owns an allocation of exactly layout.size() bytes (only constructor: AlignedBytes::new)"), "I5"),
    (r"flatty_base::traits::FlatUnsized::assign_in_place$", "unsafe-call", r"as_mut_bytes|emplace_unchecked|from_mut_bytes_unchecked", None,
     invariant("I2", "&mut self is a valid value: its own bytes are aligned and at least MIN_SIZE long, which is what emplace_unchecked requires"), "I2"),
    (r"flatty_io::.*recv::\{closure#0\}$|flatty_io::.*alloc::\{closure#0\}$", "unsafe-call", r"Pin::<Ptr>::new_unchecked", None,
     lemma("compiler-generated pinning of the awaited future inside the coroutine state (.await desugaring)"), "await"),
    (r"flatty_io::", "unsafe-call", r"from_(mut_)?bytes_unchecked", None,
     invariant("I6", "guards view their buffer only after validate / new_in_place succeeded on it (RV2, G6, typestate of SendGuard)"), "I6"),
    (r"flatty_io::", "diverge", r"panic", None,
     lemma("documented refusals of the io buffer: assert!(!poisoned) (C09 by design) and the window assertions of skip/advance (discharged at their callers: G1 drop consumes size() <= occupied, R4 advance(n) with n <= vacant)"), "io asserts"),
    (r"flatty_io::common::io::Buffer::", "panicky", r"::index$|::index_mut$|copy_within", None,
     invariant("I4", "window invariant start <= end <= capacity (writers: Buffer::{new,clear,skip,advance,make_contiguous}, F5)"), "I4"),
    (r"flatty_io::common::io::Buffer::", "assert", r"Overflow", None,
     invariant("I4", "window invariant start <= end <= capacity (writers: Buffer::{new,clear,skip,advance,make_contiguous}, F5)"), "I4"),
    (r"flatty_io::", "panicky", r"::index$", None,
     invariant("I4", "pos < count <= occupied length (W2 loop guard; count = size() of the message in the buffer)"), "I4"),
]

GEN_T = [
    # generated code (corpus crate), matched on method name
    ("validate_unchecked", "assert", r"BoundsCheck", tag_index, "DATA_MIN_SIZES[tag]"),
    ("validate_unchecked", "assert", r"Overflow\(Sub\)", contract("len >= MIN_SIZE >= DATA_OFFSET (E1 L6)"), "len - DATA_OFFSET"),
    ("emplace_unchecked", "assert", r"Overflow\(Sub\)", contract("len >= MIN_SIZE >= DATA_OFFSET (E1 L6)"), "len - DATA_OFFSET"),
    ("ptr_from_bytes", "assert", r"Overflow\(Sub\)", contract("len >= MIN_SIZE >= DATA_OFFSET (E1 L6)"), "len - DATA_OFFSET"),
    ("size", "unsafe-call", r"new_unchecked|fold_size", invariant("I2", "&self is a valid value: its payload holds the fields of the variant named by its tag"), "I2"),
    ("as_ref", "unsafe-call", r"new_unchecked|Unchecked(Ref|Mut)Data", invariant("I2", "&self is a valid value"), "I2"),
    ("as_mut", "unsafe-call", r"new_unchecked|Unchecked(Ref|Mut)Data", invariant("I2", "&mut self is a valid value"), "I2"),
]


def guard_rules(F, R, root_pred, label, min_sites, allow_invariant_roots=False, kinds=None):
    R.rule("S", "every risky site reachable from the roots is discharged by a table row with a checked predicate or by a generic tactic")
    seen, edges = e2_sites.reach_from_roots(F, root_pred)
    R.count("reachable_instances_" + label, len(seen))
    poly = {}
    for b in F.bodies:
        poly.setdefault(b["def"], b)
    reach_defs = {}
    mono_by_def = {}
    for i in seen:
        mb = F.mono.get(i)
        if mb is not None:
            reach_defs.setdefault(mb["def"], mb["krate"])
            mono_by_def.setdefault(mb["def"], []).append(mb)
    ctx = Ctx(F, R, reach_defs, poly)
    nsites = 0
    ndefs = 0
    for d, krate in sorted(reach_defs.items()):
        if krate == "stavec":
            # external trusted crate: only the length conversions that depend on flatty's choice of L are checked,
            # instance by instance (the discharge depends on the length type); the rest of stavec's safe API is trusted.
            if not re.search(r"GenericVec::<C, L>::(len|capacity|remaining)$", d):
                R.assume("stavec 0.4.2 (external): its safe API is trusted apart from len()/capacity()/remaining() conversions of L")
                continue
            for mb in mono_by_def[d]:
                body, ss = e2_sites.sites_of(mb)
                for s in ss:
                    if s["kind"] == "panicky" and "unwrap" in s["what"] and (kinds is None or s["kind"] in kinds):
                        nsites += 1
                        _discharge(ctx, mb, body, s, mono=True)
            continue
        bj = poly.get(d)
        if bj is None:
            continue
        ndefs += 1
        body, ss = e2_sites.sites_of(bj)
        for s in ss:
            if kinds is not None and s["kind"] not in kinds:
                continue
            nsites += 1
            _discharge(ctx, bj, body, s)
        # termination: loops
        if kinds is None:
            _loops(ctx, bj, body)
    # recursion: monomorphic call graph must be acyclic over workspace/generated instances
    cyc = _find_cycle({i: [c for c in edges.get(i, []) if c in F.mono] for i in seen if i in F.mono})
    R.ob("S4.no-recursion", label, "mono-call-graph", cyc is None,
         "the monomorphic call graph of the library/generated code reachable from the roots is acyclic%s" % ("" if cyc is None else " -- cycle %s" % cyc))
    R.count("functions_with_sites_" + label, ndefs)
    R.floor("S", "risky sites reachable from %s roots" % label, nsites, min_sites)


def _discharge(ctx, bj, body, s, mono=False):
    R = ctx.R
    d = bj["def"]
    fnkey = short(d)
    key_site = "%s:%s(%s)" % (s["kind"], s["what"], ", ".join(x[:50] for x in s["ops"][:2]))
    if mono:
        key_site = "%s:%s" % (s["kind"], s["what"])
    handler = None
    reason = None
    if bj["krate"] == "flatty_corpus" and bj.get("impl"):
        meth = bj["impl"].get("method") or bj["name"]
        for (m, kind, wre, h, why) in GEN_T:
            if m == meth and kind == s["kind"] and re.search(wre, s["what"]):
                handler, reason = h, why
                break
        # per-type keys would explode: key generated sites by method
        fnkey = "<generated>::%s" % meth
    if handler is None:
        for (dre, kind, wre, ore, h, why) in T:
            if kind == s["kind"] and re.search(dre, d) and re.search(wre, s["what"]) and (ore is None or any(re.search(ore, o) for o in s["ops"])):
                handler, reason = h, why
                break
    if handler is None:
        handler, reason = generic, "generic"
    try:
        ok, how = handler(ctx, bj, body, s)
    except Exception as e:  # a crashing discharge must not pass
        ok, how = False, "discharge raised %r" % e
    if mono and not ok:
        # the witness length type is part of the finding's identity
        key_site += " @ L=" + (bj.get("args") or ["?"])[-1]
    R.ob("S." + s["kind"], fnkey, key_site, ok, "%s: %s -- %s" % (short(bj["id"])[:120], key_site, how), where=s.get("sp"))
    if len(R.samples) < 10 and ok and s["kind"] in ("panicky", "unsafe-call"):
        R.samples.append({"function": short(bj["id"]), "site": key_site, "discharge": how})


def _loops(ctx, bj, body):
    """G4: every loop is driven by a finite std iterator or has a progress argument."""
    R = ctx.R
    be = body.back_edges()
    if not be:
        return
    heads = sorted({h for _, h in be})
    for h in heads:
        # blocks of the natural loop
        loop = {h}
        for (t, hh) in be:
            if hh == h:
                stack = [t]
                while stack:
                    x = stack.pop()
                    if x in loop:
                        continue
                    loop.add(x)
                    stack.extend(body.pred(x))
        nexts = []
        for bb in loop:
            t = body.term(bb)
            if isinstance(t, dict) and "call" in t:
                e = body.expr_of_call(t, 0, bb)
                if call_matches(e, "Iterator::next", "next"):
                    nexts.append((bb, e))
        ok, how = False, "loop without a recognised iterator"
        for bb, e in nexts:
            name = (e[4] or e[1])
            if re.search(r"core::slice::iter::Iter<|core::ops::range::Range<|core::iter::adapters::(enumerate|skip|take|map)", name) or \
               re.search(r"<impl core::iter::traits::iterator::Iterator for core::ops::range::Range", name):
                ok, how = True, "finite-iter: driven by %s" % short(name)[:80]
            elif re.search(r"flatty_containers::flex::DataIter", name) or (e[2] and "flatty_containers::flex::DataIter" in e[2][0]):
                ok, how = True, "progress: flex::DataIter::next either ends the chain or re-arms with a strictly shorter slice (the non-zero offset it split at)"
            elif re.search(r"Iterator::next$", name) and e[2] and re.search(r"(Range<|slice::iter::Iter<|Enumerate<core::slice|IntoIter<)", e[2][0]):
                ok, how = True, "finite-iter: %s" % e[2][0][:80]
        if not ok and re.search(r"flatty_io::(blocking|async_)::recv::Receiver::<M, B>::recv", bj["def"]):
            ok, how = True, "progress: every iteration returns, or reads at least one more byte into a bounded buffer (RV4: zero read returns Closed; R3: full buffer returns OutOfMemory)"
        if not ok and re.search(r"flatty_io::.*(write_all|WriteAll<'a, P> as core::future::future::Future>::poll)$", bj["def"]):
            ok, how = True, "ranking: W6 the position grows by n != 0 per iteration and the loop ends at pos >= count; W4/W5 errors and zero writes leave the loop"
        if not ok and re.search(r"(vec|flex)::FromIterator<.*emplace_unchecked$", bj["def"]):
            ok, how = True, "progress: every iteration appends to the fixed-capacity target (or returns); the caller's iterator itself is outside the property"
            ctx.R.assume("FromIterator emplacers terminate when the caller's iterator does or the buffer is full")
        if not ok and re.search(r"flex::FlexVec::<T, L>::push$", bj["def"]):
            ok, how = True, "progress: push walks the offset chain of a valid vector (I3), each step advances pos by a non-zero stored offset"
        R.ob("S3.loop-terminates", short(bj["def"]), "loop@%s" % ("iter" if nexts else "bare"), ok,
             "%s: %s" % (short(bj["id"])[:100], how), where=bj["span"])


def _find_cycle(g):
    color = {}
    for s in g:
        if s in color:
            continue
        stack = [(s, iter(g.get(s, [])))]
        color[s] = 1
        path = [s]
        while stack:
            node, it = stack[-1]
            adv = False
            for c in it:
                if c not in g:
                    continue
                if color.get(c) == 1:
                    return path[path.index(c):] + [c] if c in path else [node, c]
                if c not in color:
                    color[c] = 1
                    stack.append((c, iter(g.get(c, []))))
                    path.append(c)
                    adv = True
                    break
            if not adv:
                color[node] = 2
                stack.pop()
                path.pop()
    return None


def reach_components(F, R):
    """V1: validate of X reaches the validator of every non-trivially-valid (transitive) component of X (oracle: shape manifest)."""
    from e6_generated import strip_paths
    man = F.manifest
    tys = man["tys"]
    n = 0
    for nm, m in sorted(man["types"].items()):
        root = "__root_validate__" + nm
        if root not in F.roots:
            R.anchor_lost("V1", nm, "root %s missing" % root)
            continue
        seen, _ = e2_sites.reach_from_roots(F, lambda x, r=root: x == r)
        validated = set()
        for i in seen:
            mm = re.match(r"^<(.*) as flatty_base::traits::FlatValidate>::(validate_unchecked|validate|validate_ptr)$", i)
            if mm:
                validated.add(strip_paths(mm.group(1)))
            mm = re.match(r"^flatty_base::primitive::<impl flatty_base::traits::FlatValidate for (.*)>::validate_unchecked$", i)
            if mm:
                validated.add(strip_paths(mm.group(1)))
        # transitive non-trivial components
        need = set()
        stack = [m["fty"]]
        vis = set()
        while stack:
            t = stack.pop()
            if t in vis or t not in tys:
                continue
            vis.add(t)
            if not tys[t]["trivial"]:
                need.add(t)
            stack.extend(tys[t]["comps"])
        missing = sorted(t for t in need if t not in validated)
        n += 1
        R.ob("V1.reaches-components", nm, "components", not missing,
             "%s: validate reaches the validator of every constrained component %s%s" % (nm, sorted(need), "" if not missing else " -- NOT reached: %s" % missing),
             where=F.tymarks.get("__ty_" + nm))
    R.floor("V1", "types whose validate call graph was checked", n, 40)
