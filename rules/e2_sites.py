"""E2 substrate: risky-site inventory and monomorphic reachability."""
import re
from mir import Body, strip
from e5_formulas import canon, short

WS_CRATES = ("flatty_base", "flatty_containers", "flatty_portable", "flatty_io", "flatty_corpus", "stavec")

PANICKY_SUFFIXES = (
    "Option::<T>::unwrap", "Option::<T>::expect", "Result::<T, E>::unwrap", "Result::<T, E>::expect",
    "Result::<T, E>::unwrap_err", "<impl [T]>::split_at", "<impl [T]>::split_at_mut", "Index::index", "IndexMut::index_mut",
    "<impl [T]>::copy_within", "<impl [T]>::copy_from_slice", "<impl [T]>::clone_from_slice", "panicking::panic",
    "panicking::panic_fmt", "panicking::unreachable_display", "option::unwrap_failed", "result::unwrap_failed",
    "Layout::from_size_align", "slice::index::slice_index_fail", "RangeTo<usize>>::index", "iter::Data::split", "Data<'a>>::split",
    "utils::iter::Data::split",
)


def reach_from_roots(F, root_pred):
    """Set of mono instance ids reachable from roots whose name satisfies root_pred, and the def-paths touched."""
    start = []
    for name, ids in F.roots.items():
        if root_pred(name):
            start.extend(ids)
    seen = set()
    stack = list(start)
    edges = {}
    while stack:
        i = stack.pop()
        if i in seen:
            continue
        seen.add(i)
        mb = F.mono.get(i)
        callees = []
        if mb is not None:
            callees = mono_callees(mb)
        else:
            li = F.insts.get(i)
            if li is not None:
                callees = [c[1] for c in li.get("calls", []) if not c[1].startswith("indirect:")] + [r[1] for r in li.get("refs", [])]
        edges[i] = callees
        stack.extend(callees)
    return seen, edges


_callee_cache = {}


def mono_callees(mb):
    k = mb["id"]
    if k in _callee_cache:
        return _callee_cache[k]
    out = []

    def op(o):
        if "k" in o and "fn" in o["k"]:
            r = o["k"]["fn"].get("res")
            if r:
                out.append(r["id"])

    def rv(r):
        for key in ("use", "a", "b", "repeat"):
            if key in r and isinstance(r[key], dict):
                op(r[key])
        if "agg" in r:
            a = r["agg"]
            if isinstance(a, dict) and "id" in a:
                out.append(a["id"])
            for o in r["ops"]:
                op(o)

    for bl in mb["blocks"]:
        for s in bl["st"]:
            if s["r"]:
                rv(s["r"])
        t = bl["t"]
        if isinstance(t, dict):
            if "call" in t:
                c = t["call"]
                if c.get("res"):
                    out.append(c["res"]["id"])
                for o in t["ops"]:
                    op(o)
            elif "drop" in t:
                pass
    _callee_cache[k] = out
    return out


def sites_of(bj):
    """Risky sites of one body: list of dicts(kind, bb, what, detail)."""
    body = Body(bj)
    out = []
    for bb in range(body.n):
        if body.is_cleanup(bb):
            continue
        t = body.term(bb)
        if not isinstance(t, dict):
            continue
        if "assert" in t:
            a = t["assert"]
            if a["msg"] in ("ResumedAfterReturn", "ResumedAfterPanic", "ResumedAfterDrop"):
                continue
            out.append({"kind": "assert", "bb": bb, "what": a["msg"], "ops": [canon(body.expr_of_operand(o)) for o in a["ops"]],
                        "cond": canon(body.expr_of_operand(a["cond"])) if a.get("cond") is not None else None, "expected": a.get("expected"),
                        "sp": t.get("sp")})
        elif "call" in t:
            c = t["call"]
            d = c.get("def")
            if not d:
                out.append({"kind": "indirect", "bb": bb, "what": c.get("indirect"), "ops": [], "sp": t.get("sp")})
                continue
            res = (c.get("res") or {}).get("def") or d
            e = body.expr_of_call(t, 0, bb)
            args = [canon(a) for a in e[3]]
            if t["target"] is None:
                out.append({"kind": "diverge", "bb": bb, "what": short(res), "ops": args, "sp": t.get("sp")})
            elif any(res.endswith(sfx) or d.endswith(sfx) for sfx in PANICKY_SUFFIXES):
                out.append({"kind": "panicky", "bb": bb, "what": short(res), "ops": args, "sp": t.get("sp"), "gargs": c.get("args")})
            elif c.get("unsafe"):
                out.append({"kind": "unsafe-call", "bb": bb, "what": short(res), "ops": args, "sp": t.get("sp"), "gargs": c.get("args")})
    # raw pointer dereferences
    for bb, i, s in body.assigns():
        for pl in [s["l"]] + _places_of_rvalue(s["r"]):
            if pl and "*" in pl["p"]:
                ty = body.local_ty(pl["v"])
                if ty.startswith("*mut") or ty.startswith("*const"):
                    out.append({"kind": "raw-deref", "bb": bb, "what": "deref " + ty, "ops": [canon(body.expr_of_place({"v": pl["v"], "p": []}))], "sp": s.get("sp")})
    return body, out


def _places_of_rvalue(r):
    out = []
    for k in ("ref", "raw", "discr"):
        if k in r:
            out.append(r[k])
    for k in ("use", "a", "b"):
        if k in r and isinstance(r[k], dict):
            o = r[k]
            p = o.get("c") or o.get("m")
            if p:
                out.append(p)
    if "agg" in r:
        for o in r["ops"]:
            p = o.get("c") or o.get("m")
            if p:
                out.append(p)
    return out
