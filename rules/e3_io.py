"""E3/E4/E5-F5 rules on the io crate: write loops, read, recv loops, guards, window arithmetic.

All rules work on the polymorphic MIR of flatty_io (they hold for every pipe / message type).
Blocking and async siblings are checked by the same rule code.
"""
import re
from facts import AnchorLost
from mir import Body, strip, show, walk, is_call_to
from paths import events, call_matches, find_calls, bool_taken, norm_cmp, root_call_bb

IOBUF = "flatty_io::common::io::IoBuffer"
BUFFER = "flatty_io::common::io::Buffer"


def fidx(F, adt, name):
    return F.adt_field_index(adt, name)


def is_field_of(e, base_pred, idx):
    return e[0] == "field" and e[2] == idx and base_pred(strip(e[1]))


def place_is_field(body, place, type_name, field_idx):
    """Does MIR place `place` (json) denote <value of type type_name>.field_idx (possibly deeper)? returns depth index or None"""
    ty = body.local_ty(place["v"])
    cur = ty
    for k, e in enumerate(place["p"]):
        if e == "*":
            cur = cur.lstrip("&")
            if cur.startswith("mut "):
                cur = cur[4:]
            if cur.startswith("'"):
                cur = cur.split(" ", 1)[1] if " " in cur else cur
                if cur.startswith("mut "):
                    cur = cur[4:]
            continue
        if isinstance(e, dict) and "f" in e:
            base = cur.split("<")[0]
            if base == type_name and e["f"] == field_idx:
                return k
            cur = e["ty"]
            continue
        if isinstance(e, dict) and "dc" in e:
            continue
        return None
    return None


def stores_to_field(body, type_name, field_idx):
    out = []
    for bb, i, s in body.assigns():
        k = place_is_field(body, s["l"], type_name, field_idx)
        if k is not None:
            out.append((bb, i, s))
    return out


def const_bool(r):
    """rvalue json -> True/False if it is a boolean constant."""
    if "use" in r and "k" in r["use"]:
        k = r["use"]["k"]
        if k.get("ty") == "bool" and "int" in k:
            return bool(k["int"])
    return None


def mutator_calls(ev_list):
    """Calls on a path that mutate the io buffer state."""
    out = []
    for ev in ev_list:
        if ev.kind == "call" and call_matches(ev.b, "Buffer::clear", "Buffer::skip", "Buffer::advance", "Buffer::make_contiguous",
                                              "ReadBuffer::skip", "AsyncReadBuffer::skip"):
            out.append(ev)
    return out


def where(body, bb):
    t = body.term(bb)
    if isinstance(t, dict) and t.get("sp"):
        return t["sp"]
    st = body.stmts(bb)
    if st:
        return st[0]["sp"]
    return body.j["span"]


# --------------------------------------------------------------------------------------
# write loops

def write_loop_rules(F, R, variant):
    """variant: 'blocking' (IoBuffer::write_all) or 'async' (WriteAll::poll)."""
    pois = fidx(F, IOBUF, "poisoned")
    if variant == "blocking":
        b = F.one(krate="flatty_io", trait="flatty_io::blocking::send::WriteBuffer", method="write_all", self_adt=IOBUF)
        pipe_names = ("std::io::Write::write", "io::Write::write", "Write::write")
        fn = "blocking::io::write_all"
    else:
        b = F.one(krate="flatty_io", trait="core::future::future::Future", method="poll", self_adt="flatty_io::async_::io::WriteAll")
        pipe_names = ("AsyncWrite::poll_write",)
        fn = "async_::io::WriteAll::poll"
    body = Body(b)
    R.count("functions_analysed")
    wcalls = find_calls(body, *pipe_names)
    if len(wcalls) != 1:
        R.anchor_lost("W", fn, "expected exactly one pipe write call, found %d" % len(wcalls))
        return
    wbb, wt = wcalls[0]
    wexpr = body.expr_of_call(wt, 0, wbb)

    # ---- W1 entry: poisoned tested before the pipe is touched
    ok = False
    for sbb, st in body.switches():
        cond = body.expr_of_operand(st["switch"])
        c = strip(cond)
        if c[0] == "field" and c[2] == pois and body.dominates(sbb, wbb):
            # true edge must not reach the pipe call
            true_t = st["otherwise"]
            false_t = [b_ for v, b_ in st["targets"] if int(v) == 0]
            if false_t and wbb not in body.reachable_from(true_t) and wbb in body.reachable_from(false_t[0]):
                ok = True
    R.ob("W1.poison-entry", fn, "entry", ok, "a poisoned buffer is refused before the pipe is called (%s)" % fn, where=b["span"])

    # ---- classify edges of the pipe result
    # find switch blocks on discr of the call result (possibly nested Poll<Result<..>>)
    err_starts, ok_starts, pending_starts = [], [], []
    for sbb, st in body.switches():
        cond = body.expr_of_operand(st["switch"])
        if cond[0] != "discr":
            continue
        x = cond[1]
        if root_call_bb(x) != wbb:
            continue
        # determine which enum level: Poll or Result
        depth_names = []
        y = x
        while y[0] in ("downcast", "field", "deref", "ref"):
            if y[0] == "downcast":
                depth_names.append(y[2])
            y = y[1]
        is_poll_level = variant == "async" and not depth_names
        for v, tb in st["targets"]:
            v = int(v)
            if is_poll_level:
                (ok_starts if False else []).append(tb)
                if v == 1:
                    pending_starts.append((sbb, tb))
            else:
                if v == 0:
                    ok_starts.append((sbb, tb))
                elif v == 1:
                    err_starts.append((sbb, tb))
        # otherwise edge
        tvals = [int(v) for v, _ in st["targets"]]
        if st["otherwise"] is not None and body.term(st["otherwise"]) != "unreachable":
            missing = [v for v in (0, 1) if v not in tvals]
            if len(missing) == 1:
                v = missing[0]
                if is_poll_level:
                    if v == 1:
                        pending_starts.append((sbb, st["otherwise"]))
                else:
                    (ok_starts if v == 0 else err_starts).append((sbb, st["otherwise"]))
    if not err_starts or not ok_starts:
        R.anchor_lost("W", fn, "could not classify Ok/Err edges of the pipe write result")
        return
    if variant == "async" and not pending_starts:
        # ready! expands to a match on Poll: Pending arm returns
        R.anchor_lost("W", fn, "could not find the Pending edge of poll_write")
        return

    # locate loop variable pos: the value compared in the loop guard that dominates the write call
    guard = None
    for sbb, st in body.switches():
        cond = body.expr_of_operand(st["switch"])
        if cond[0] == "bin" and cond[1] in ("Lt", "Gt", "Le", "Ge") and body.dominates(sbb, wbb):
            # the guard from which one edge reaches the write and the other does not
            tgt = [b_ for _, b_ in st["targets"]] + [st["otherwise"]]
            reach = [wbb in body.reachable_from(t_, avoid=[sbb]) for t_ in tgt]
            if any(reach) and not all(reach):
                guard = (sbb, st, cond)
    if guard is None:
        R.anchor_lost("W", fn, "loop guard not found")
        return
    gbb, gst, gcond = guard
    # W2 guard exactness: continue iff pos < count
    true_t = gst["otherwise"]
    enters_on_true = wbb in body.reachable_from(true_t, avoid=[gbb])
    n = norm_cmp(gcond, enters_on_true)
    count_ok = False
    pos_e = cnt_e = None
    if n and n[0] == "Lt":
        pos_e, cnt_e = strip(n[1]), strip(n[2])
        if variant == "blocking":
            count_ok = cnt_e[0] == "param" and cnt_e[1] == 2 and pos_e[0] == "local"
        else:
            ci = fidx(F, "flatty_io::async_::io::WriteAll", "count")
            pi = fidx(F, "flatty_io::async_::io::WriteAll", "pos")
            count_ok = cnt_e[0] == "field" and cnt_e[2] == ci and pos_e[0] == "field" and pos_e[2] == pi
    R.ob("W2.guard", fn, "loop-guard", count_ok,
         "the write loop continues exactly while pos < count (found %s taken-on-%s)" % (show(gcond), enters_on_true),
         where=where(body, gbb))

    # W3 slice handed to the pipe: occupied()[pos..count]
    ops = wexpr[3]
    buf_arg = strip(ops[-1])
    slice_ok = False
    if buf_arg[0] == "call" and call_matches(buf_arg, "Index::index", "index"):
        base, rng = strip(buf_arg[3][0]), strip(buf_arg[3][1])
        if call_matches(base, "Buffer::occupied") and rng[0] == "agg" and rng[1][0] == "adt" and rng[1][1] == "core::ops::range::Range":
            s_, e_ = strip(rng[2][0]), strip(rng[2][1])
            same_pos = _same_var(s_, pos_e)
            same_cnt = _same_var(e_, cnt_e)
            slice_ok = same_pos and same_cnt
    R.ob("W3.slice", fn, "pipe-arg", slice_ok,
         "the pipe is handed occupied()[pos..count] (found %s)" % show(buf_arg)[:200], where=where(body, wbb))

    # ---- error edges
    hdr = gbb
    poisoned_stores = stores_to_field(body, IOBUF, pois)
    # W4 errors escape: from the Err edge no path reaches the pipe call again
    for (sbb, tb) in err_starts:
        esc = wbb not in body.reachable_from(tb)
        R.ob("W4.err-escapes", fn, "Err-edge", esc,
             "a pipe write error leaves the loop: every path from the Err edge returns without calling the pipe again",
             detail={"err_edge_block": tb}, where=where(body, sbb))
    # zero-length write edges: under Ok edge, branch n == 0
    zero_starts = []
    nz_starts = []
    for (sbb, tb) in ok_starts:
        for zbb in sorted(body.reachable_from(tb, avoid=[hdr])):
            t = body.term(zbb)
            if isinstance(t, dict) and "switch" in t:
                cond = body.expr_of_operand(t["switch"])
                if cond[0] == "bin" and cond[1] in ("Eq", "Ne"):
                    a, c = strip(cond[2]), strip(cond[3])
                    if c[0] == "const" and c[1] == 0 and root_call_bb(a) == wbb:
                        tt = t["otherwise"]
                        ff = [b_ for v, b_ in t["targets"] if int(v) == 0][0]
                        if cond[1] == "Eq":
                            zero_starts.append((zbb, tt))
                            nz_starts.append((zbb, ff))
                        else:
                            zero_starts.append((zbb, ff))
                            nz_starts.append((zbb, tt))
                elif cond[0] not in ("discr", "bin") and root_call_bb(strip(cond)) == wbb and [int(v) for v, _ in t["targets"]] == [0]:
                    # the literal-pattern form `Ok(0) => .., Ok(n) => ..`: the payload itself is switched on (benign variant b20)
                    zero_starts.append((zbb, t["targets"][0][1]))
                    nz_starts.append((zbb, t["otherwise"]))
    R.ob("W5.zero-write", fn, "Ok(0)", bool(zero_starts) and all(wbb not in body.reachable_from(tb) for _, tb in zero_starts),
         "a zero-length write is an error: the Ok(0) edge returns without calling the pipe again", where=where(body, wbb))
    # W6 progress: on the n != 0 edge back to the header pos += n exactly once
    prog_ok = bool(nz_starts)
    for (zbb, tb) in nz_starts:
        for p in body.paths(tb, stop=[hdr]):
            evs = events(body, p)
            pos_stores = []
            for ev in evs:
                if ev.kind == "assign":
                    if variant == "blocking":
                        if not ev.a["p"] and pos_e and pos_e[0] == "local" and ev.a["v"] == pos_e[1]:
                            pos_stores.append(ev)
                    else:
                        if place_is_field(body, ev.a, "flatty_io::async_::io::WriteAll", fidx(F, "flatty_io::async_::io::WriteAll", "pos")) is not None:
                            pos_stores.append(ev)
            if p[-1] != hdr and body.term(p[-1]) == "return":
                continue
            good = len(pos_stores) == 1
            if good:
                rhs = body.expr_of_rvalue(pos_stores[0].b)
                good = rhs[0] == "bin" and rhs[1] == "Add" and _same_var(strip(rhs[2]), pos_e) and root_call_bb(strip(rhs[3])) == wbb
            prog_ok = prog_ok and good
    R.ob("W6.progress", fn, "Ok(n)", prog_ok, "on Ok(n), n != 0 the position advances by exactly n before the next pipe call (ranking: at most count calls)",
         where=where(body, wbb))

    # W7 poisoning iff partial: every error exit either establishes pos == 0 or stores const true
    def error_paths():
        for (sbb, tb) in err_starts + zero_starts:
            for p in body.paths(tb, stop=[wbb]):
                yield sbb, tb, p

    w7 = True
    w7_detail = None
    n_err_paths = 0
    for sbb, tb, p in error_paths():
        evs = events(body, p)
        if p[-1] == wbb or (evs and evs[-1].kind == "loop"):
            continue  # W4 reports re-entry
        n_err_paths += 1
        pos_zero = False
        stored_true = False
        for ev in evs:
            if ev.kind == "branch":
                bt = bool_taken(ev)
                if bt is not None:
                    n_ = norm_cmp(ev.a, bt)
                    if n_ and n_[0] in ("Eq", "Le") and _same_var(strip(n_[1]), pos_e) and strip(n_[2])[0] == "const" and strip(n_[2])[1] == 0:
                        pos_zero = True  # pos == 0, or pos <= 0 on an unsigned position
            if ev.kind == "assign" and place_is_field(body, ev.a, IOBUF, pois) is not None:
                if const_bool(ev.b) is True:
                    stored_true = True
                else:
                    w7 = False
                    w7_detail = "poisoned assigned a non-constant value on an error path"
        if not (pos_zero or stored_true):
            w7 = False
            w7_detail = "error exit with possibly non-zero position does not poison (path %s)" % p
    R.ob("W7.poison-partial", fn, "error-exits", w7 and n_err_paths > 0,
         "every error exit on which bytes may already have been written stores poisoned = true (%d error paths)%s" % (
             n_err_paths, "" if w7 else ": " + str(w7_detail)), where=b["span"])
    # W8 no poisoning outside error paths: every store to poisoned is dominated by an error edge
    w8 = True
    for (pbb, i, s) in poisoned_stores:
        dominated = any(body.edge_dominates((sbb, tb), pbb) for sbb, tb in err_starts + zero_starts)
        if not dominated or const_bool(s["r"]) is not True:
            w8 = False
    R.ob("W8.poison-only-on-error", fn, "poison-stores", w8,
         "poisoned is only ever set (to true) after a failed or zero-length write, never on the success path (%d stores)" % len(poisoned_stores),
         where=b["span"])

    # W9 success exit: Ok only after loop exit; clear only on that path
    clear_calls = find_calls(body, "Buffer::clear")
    exit_edge = None
    for v, t_ in gst["targets"]:
        if wbb not in body.reachable_from(t_, avoid=[gbb]):
            exit_edge = (gbb, t_)
    if exit_edge is None and wbb not in body.reachable_from(gst["otherwise"], avoid=[gbb]):
        exit_edge = (gbb, gst["otherwise"])
    w9 = exit_edge is not None and len(clear_calls) == 1 and body.edge_dominates(exit_edge, clear_calls[0][0])
    R.ob("W9.clear-after-all-written", fn, "clear", w9, "the buffer is cleared only after the loop exit pos >= count", where=b["span"])

    if variant == "blocking":
        # W10 (blocking sibling): the sink is flushed after the last byte and before the buffer is released; a flush error is returned
        # (the pipe is not reachable from outside the sender, so nobody else can flush it; the async sibling flushes too)
        fl = find_calls(body, "std::io::Write::flush", "io::Write::flush")
        okf = len(fl) == 1 and exit_edge is not None and bool(clear_calls)
        if okf:
            fbb = fl[0][0]
            okf = body.edge_dominates(exit_edge, fbb) and body.dominates(fbb, clear_calls[0][0])
            for p_ in body.paths(exit_edge[1]):
                if body.term(p_[-1]) == "return" and fbb not in p_:
                    okf = False
            ok_e, err_e, _pe = _result_edges(body, fbb, False)
            # also through `?`: Try::branch(flush) -> Break edge
            via_try = []
            for sbb, st in body.switches():
                cond = body.expr_of_operand(st["switch"])
                if cond[0] == "discr":
                    x = strip(cond[1])
                    if x[0] == "call" and call_matches(x, "Try::branch") and strip(x[3][0])[0] == "call" and strip(x[3][0])[5] == fbb:
                        tv = {int(v): tb for v, tb in st["targets"]}
                        if 0 in tv and 1 in tv:
                            via_try.append((sbb, tv[0], tv[1]))
            if via_try:
                sbb, cont_t, brk_t = via_try[0]
                okf = okf and body.edge_dominates((sbb, cont_t), clear_calls[0][0]) and clear_calls[0][0] not in body.reachable_from(brk_t)
            elif ok_e and err_e:
                okf = okf and any(body.edge_dominates(e, clear_calls[0][0]) for e in ok_e) and \
                    not any(clear_calls[0][0] in body.reachable_from(e[1]) for e in err_e)
            else:
                okf = False
        R.ob("W10.flush", fn, "flush", okf,
             "send completes only after the sink was flushed: every path from the loop exit to return passes Write::flush, its error is returned, "
             "and clear() follows its success edge", where=b["span"])
    if variant == "async":
        # W10 flush: every path from loop exit to a Ready(Ok) return passes the Ready(Ok) edge of poll_flush, clear after it
        fl = find_calls(body, "AsyncWrite::poll_flush")
        okf = len(fl) == 1 and exit_edge is not None
        if okf:
            fbb = fl[0][0]
            okf = body.edge_dominates(exit_edge, fbb) and body.dominates(fbb, clear_calls[0][0]) if clear_calls else False
            # all paths from exit edge to return: either pass fbb
            for p in body.paths(exit_edge[1]):
                if body.term(p[-1]) == "return" and fbb not in p:
                    okf = False
            # clear only on Ready(Ok) edge of the flush: the clear call must not be reachable from Pending/Err edges
            if okf:
                okf = _flush_edges_ok(body, fbb, clear_calls[0][0])
        R.ob("W10.flush", fn, "flush", okf,
             "send completes only after poll_flush returned Ready(Ok): every path from the loop exit to return passes poll_flush, its Err is told apart and returned, and clear() follows its success edge",
             where=b["span"])
        # W11 Pending edges: return Pending with no state change
        pend_ok = True
        npend = 0
        all_pending = list(pending_starts)
        if fl:
            all_pending += _pending_edges(body, fl[0][0])
        for (sbb, tb) in all_pending:
            for p in body.paths(tb):
                npend += 1
                evs = events(body, p)
                for ev in evs:
                    if ev.kind == "assign":
                        for (tn, fi) in (("flatty_io::async_::io::WriteAll", fidx(F, "flatty_io::async_::io::WriteAll", "pos")),
                                         ("flatty_io::async_::io::WriteAll", fidx(F, "flatty_io::async_::io::WriteAll", "count")),
                                         (IOBUF, pois), (BUFFER, fidx(F, BUFFER, "window"))):
                            if place_is_field(body, ev.a, tn, fi) is not None:
                                pend_ok = False
                    if ev.kind == "call" and (mutator_calls([ev]) or call_matches(ev.b, *pipe_names)):
                        pend_ok = False
                    if ev.kind == "loop":
                        pend_ok = False
                # return value must be Pending
                if not _returns_variant(body, p, "Pending"):
                    pend_ok = False
        R.ob("W11.pending-no-effect", fn, "Pending-edges", pend_ok and npend >= 2,
             "on Pending from poll_write/poll_flush the future returns Pending without touching pos, window or poisoned (%d paths)" % npend,
             where=b["span"])
        # W12 position lives in the future, constructor initialises it
        ctor = F.one(krate="flatty_io", trait="flatty_io::async_::send::AsyncWriteBuffer", method="write_all", self_adt=IOBUF)
        cb = Body(ctor)
        good = False
        for bb, i, s in cb.assigns():
            r = s["r"]
            if "agg" in r and isinstance(r["agg"], dict) and r["agg"].get("adt") == "flatty_io::async_::io::WriteAll":
                e = cb.expr_of_rvalue(r)
                fo = fidx(F, "flatty_io::async_::io::WriteAll", "owner")
                fp = fidx(F, "flatty_io::async_::io::WriteAll", "pos")
                fc = fidx(F, "flatty_io::async_::io::WriteAll", "count")
                a = e[2]
                good = (strip(a[fp]) == ("const", 0, "usize") and strip(a[fc])[0] == "param" and strip(a[fc])[1] == 2
                        and strip(a[fo])[0] == "param" and strip(a[fo])[1] == 1)
        R.ob("W12.future-state", "async_::io::write_all", "ctor", good,
             "the WriteAll future is created with pos = 0, count = the requested count, owner = self; poll keeps pos in the future (W2/W6)",
             where=ctor["span"])
        # no store of a constant to pos inside poll (would restart the position on re-poll)
        resets = 0
        for bb, i, s in body.assigns():
            if place_is_field(body, s["l"], "flatty_io::async_::io::WriteAll", fidx(F, "flatty_io::async_::io::WriteAll", "pos")) is not None:
                rhs = body.expr_of_rvalue(s["r"])
                if not (rhs[0] == "bin" and rhs[1] == "Add"):
                    resets += 1
        R.ob("W12.no-reset", fn, "pos-stores", resets == 0, "poll never overwrites pos with anything but pos + n", where=b["span"])


def _same_var(a, b):
    if a is None or b is None:
        return False
    a, b = strip(a), strip(b)
    if a[0] == "local" and b[0] == "local":
        return a[1] == b[1]
    if a[0] == "param" and b[0] == "param":
        return a[1] == b[1]
    if a[0] == "field" and b[0] == "field":
        return a[2] == b[2] and _same_root(a[1], b[1])
    return a == b


def _same_root(a, b):
    a, b = strip(a), strip(b)
    while a[0] in ("field", "downcast") or b[0] in ("field", "downcast"):
        if a[0] != b[0]:
            break
        if a[0] == "field" and a[2] != b[2]:
            return False
        a, b = strip(a[1]), strip(b[1])
    # Pin<&mut Self> derefs resolve to calls; be lenient: same kind of root
    return True


def _pending_edges(body, call_bb):
    out = []
    for sbb, st in body.switches():
        cond = body.expr_of_operand(st["switch"])
        if cond[0] == "discr" and root_call_bb(cond[1]) == call_bb:
            x = cond[1]
            nested = False
            y = x
            while y[0] in ("downcast", "field", "deref", "ref"):
                if y[0] == "downcast":
                    nested = True
                y = y[1]
            if nested:
                continue
            for v, tb in st["targets"]:
                if int(v) == 1:
                    out.append((sbb, tb))
            tv = [int(v) for v, _ in st["targets"]]
            if 1 not in tv and body.term(st["otherwise"]) != "unreachable":
                out.append((sbb, st["otherwise"]))
    return out


def _flush_edges_ok(body, fbb, clear_bb):
    """clear_bb must be unreachable from the Pending edge and from the Err edge of the flush result."""
    bad_starts = list(_pending_edges(body, fbb))
    n_pending = len(bad_starts)
    # Err edges: discr on (result as Ready).0 or via Try::branch
    for sbb, st in body.switches():
        cond = body.expr_of_operand(st["switch"])
        if cond[0] == "discr" and root_call_bb(cond[1]) is not None:
            rb = root_call_bb(cond[1])
            # Try::branch(x) where x derives from flush
            e = cond[1]
            while e[0] in ("downcast", "field", "deref", "ref"):
                e = e[1]
            if e[0] == "call" and call_matches(e, "Try::branch", "branch"):
                inner = strip(e[3][0])
                if root_call_bb(inner) == fbb:
                    for v, tb in st["targets"]:
                        if int(v) == 1:
                            bad_starts.append((sbb, tb))
            elif rb == fbb and any(True for _ in [1]):
                nested = False
                y = cond[1]
                while y[0] in ("downcast", "field", "deref", "ref"):
                    if y[0] == "downcast":
                        nested = True
                    y = y[1]
                if nested:
                    for v, tb in st["targets"]:
                        if int(v) == 1:
                            bad_starts.append((sbb, tb))
    if not bad_starts or len(bad_starts) == n_pending:
        return False   # the flush result is not discriminated into Ok / Err: a failed flush would be reported as success
    for _, tb in bad_starts:
        if clear_bb in body.reachable_from(tb):
            return False
    return True


def _returns_variant(body, path, vname):
    """Last assignment to _0 on the path builds enum variant vname (e.g. Poll::Pending)."""
    last = None
    for bb in path:
        for s in body.stmts(bb):
            if s["l"] and s["l"]["v"] == 0 and not s["l"]["p"]:
                last = s["r"]
    if last is None:
        return False
    if "agg" in last and isinstance(last["agg"], dict) and last["agg"].get("vname") == vname:
        return True
    return False


# --------------------------------------------------------------------------------------
# read / poll_read

def read_rules(F, R, variant):
    pois = fidx(F, IOBUF, "poisoned")
    if variant == "blocking":
        b = F.one(krate="flatty_io", trait="flatty_io::blocking::recv::ReadBuffer", method="read", self_adt=IOBUF)
        pipe_names = ("std::io::Read::read", "io::Read::read")
        fn = "blocking::io::read"
    else:
        b = F.one(krate="flatty_io", trait="flatty_io::async_::recv::AsyncReadBuffer", method="poll_read", self_adt=IOBUF)
        pipe_names = ("AsyncRead::poll_read",)
        fn = "async_::io::poll_read"
    body = Body(b)
    R.count("functions_analysed")
    rc = find_calls(body, *pipe_names)
    if len(rc) != 1:
        R.anchor_lost("R", fn, "expected one pipe read call, found %d" % len(rc))
        return
    rbb, rt = rc[0]
    rexpr = body.expr_of_call(rt, 0, rbb)
    # R1 poisoned entry
    ok = False
    for sbb, st in body.switches():
        c = strip(body.expr_of_operand(st["switch"]))
        if c[0] == "field" and c[2] == pois and body.dominates(sbb, rbb):
            false_t = [b_ for v, b_ in st["targets"] if int(v) == 0]
            if false_t and rbb not in body.reachable_from(st["otherwise"]):
                ok = True
    R.ob("R1.poison-entry", fn, "entry", ok, "a poisoned buffer is refused before the pipe is read", where=b["span"])
    # R2 buffer handed to the pipe is vacant_mut()
    arg = strip(rexpr[3][-1])
    R.ob("R2.read-into-vacant", fn, "pipe-arg", call_matches(arg, "Buffer::vacant_mut"),
         "the pipe reads into the vacant part of the buffer (found %s)" % show(arg)[:160], where=where(body, rbb))
    # R3 out-of-memory before an empty read: every path to the pipe call either has vacant_len()==0 false, or
    # (preceding_len() > 0 true and make_contiguous called)
    r3 = True
    npaths = 0
    oom_exit = False
    early_bad = []
    for p in body.paths(0, stop=[rbb]):
        evs = events(body, p)
        if p[-1] != rbb:
            # an exit before the pipe call: must be the OOM error (vacant == 0, preceding == 0) or the poisoned panic
            vz = _path_has_cmp(evs, "Buffer::vacant_len", "Eq", 0)
            pz = _path_has_cmp(evs, "Buffer::preceding_len", "Le", 0) or _path_has_cmp(evs, "Buffer::preceding_len", "Eq", 0)
            if vz and pz:
                oom_exit = oom_exit or _path_builds_errorkind(evs, "OutOfMemory")
            elif body.term(p[-1]) == "return":
                # any other way out before the pipe call (an error although bytes precede, i.e. although compaction would make room)
                r3 = False
                early_bad.append("early return without vacant == 0 and preceding == 0 (path %s)" % p[:12])
            continue
        npaths += 1
        vnz = _path_has_cmp(evs, "Buffer::vacant_len", "Ne", 0) or _path_has_cmp(evs, "Buffer::vacant_len", "Lt0", 0)
        compacted = any(ev.kind == "call" and call_matches(ev.b, "Buffer::make_contiguous") for ev in evs)
        pre_pos = _path_has_cmp(evs, "Buffer::preceding_len", "Lt0", 0) or _path_has_cmp(evs, "Buffer::preceding_len", "Ne", 0)
        if not (vnz or (compacted and pre_pos)):
            r3 = False
        if compacted and not (pre_pos and _path_has_cmp(evs, "Buffer::vacant_len", "Eq", 0)):
            r3 = False  # compaction only when full and something precedes
    R.ob("R3.oom-before-empty-read", fn, "pre-read", r3 and npaths >= 2 and oom_exit,
         "the pipe is never asked to read into an empty slice: full buffer => compact if bytes precede, else (and only then) OutOfMemory error (%d paths)%s" % (
             npaths, "" if not early_bad else " -- " + early_bad[0]),
         where=b["span"])
    # R4 advance only on Ok(n) with that n; no mutation on Err / Pending
    adv = find_calls(body, "Buffer::advance")
    r4 = len(adv) == 1
    ok_edges, err_edges, pend_edges = _result_edges(body, rbb, variant == "async")
    if r4:
        abb, at = adv[0]
        ae = body.expr_of_call(at, 0, abb)
        narg = strip(ae[3][1])
        r4 = root_call_bb(narg) == rbb and _is_ok_payload(narg) and any(body.edge_dominates(e, abb) for e in ok_edges)
    R.ob("R4.advance-on-ok", fn, "advance", r4, "advance(n) happens only on the Ok(n) edge of the pipe read, with that n", where=b["span"])
    r5 = bool(err_edges)
    nerr = 0
    for (sbb, tb) in err_edges + pend_edges:
        for p in body.paths(tb):
            nerr += 1
            evs = events(body, p)
            if mutator_calls(evs):
                r5 = False
            for ev in evs:
                if ev.kind == "assign":
                    for (tn, fi) in ((IOBUF, pois), (BUFFER, fidx(F, BUFFER, "window")), (IOBUF, fidx(F, IOBUF, "buffer"))):
                        if place_is_field(body, ev.a, tn, fi) is not None:
                            r5 = False
    R.ob("R5.no-effect-on-error", fn, "Err/Pending-edges", r5,
         "a failed (or pending) read leaves the window untouched, so a retry sees the same bytes (%d paths)" % nerr, where=b["span"])
    if variant == "async":
        pend_ok = bool(pend_edges)
        for (sbb, tb) in pend_edges:
            for p in body.paths(tb):
                if not _returns_variant(body, p, "Pending"):
                    pend_ok = False
        R.ob("R6.pending-returns-pending", fn, "Pending-edge", pend_ok, "Pending from the pipe is returned as Pending (the pipe registered the waker with the same cx)",
             where=b["span"])
        # cx passed through
        cx = strip(rexpr[3][1])
        R.ob("R6.cx", fn, "cx", cx[0] == "param" and cx[1] == 2, "the caller's task context is the one handed to the pipe", where=where(body, rbb))
    # R7 result forwarded
    fw = False
    for p in body.paths(rbb):
        pass
    ret_e = None
    for bb, i, s in body.assigns():
        if s["l"]["v"] == 0 and not s["l"]["p"]:
            e = body.expr_of_rvalue(s["r"])
            if root_call_bb(strip(e)) == rbb or (e[0] == "agg" and e[2] and root_call_bb(strip(e[2][0])) == rbb):
                fw = True
    R.ob("R7.result-forwarded", fn, "return", fw, "the pipe's own result (count or error) is what the caller gets", where=b["span"])
    # R7e: an error from the pipe always comes back to the caller as that error (never re-labelled as "not ready", never retried here)
    fwd_err, nep = bool(err_edges), 0
    why = ""
    for (sbb, tb) in err_edges:
        for p in body.paths(tb):
            if body.term(p[-1]) != "return":
                continue
            nep += 1
            last = None
            for bb in p:
                for s_ in body.stmts(bb):
                    if s_["l"] and s_["l"]["v"] == 0 and not s_["l"]["p"]:
                        last = s_["r"]
            if last is None:
                # the return place was assigned before the switch (e.g. `res` moved into _0 earlier): accept if such a store derives from the read
                pre = [s_["r"] for bb, i, s_ in body.assigns() if s_["l"]["v"] == 0 and not s_["l"]["p"] and body.dominates(bb, sbb)]
                last = pre[-1] if pre else None
            e = body.expr_of_rvalue(last) if last is not None else None
            good = False
            if e is not None:
                x = strip(e)
                if root_call_bb(x) == rbb:
                    good = True
                elif e[0] == "agg" and e[2] and root_call_bb(strip(e[2][0])) == rbb and not (isinstance(last.get("agg"), dict) and last["agg"].get("vname") == "Pending"):
                    good = True
            if not good:
                fwd_err = False
                why = " -- an error path returns something else (path %s)" % p[:10]
    R.ob("R7.error-forwarded", fn, "Err-edge", fwd_err and nep > 0,
         "every return reached from the Err edge of the pipe read hands that error to the caller (no conversion to Pending / retry inside read)%s" % why, where=b["span"])


def _is_ok_payload(e):
    e = strip(e)
    # (call as Ok).0  or ((call as Ready).0 as Ok).0
    if e[0] == "field" and e[2] == 0:
        d = e[1]
        if d[0] == "downcast" and d[2] == "Ok":
            return True
    return False


def _scrutinee_chain(x):
    """Projection chain from the call result to the scrutinee: list of downcast names / field indices (outermost last)."""
    ch = []
    while x[0] in ("downcast", "field", "deref", "ref"):
        if x[0] == "downcast":
            ch.append(("dc", x[2]))
        elif x[0] == "field":
            ch.append(("f", x[2]))
        x = x[1]
    ch.reverse()
    return x, ch


def _result_edges(body, call_bb, is_poll):
    """Edges of the switch(es) on the discriminant of a call's Result / Poll<Result> value.
    Returns (ok_edges, err_edges, pending_edges), each a list of (switch_bb, target_bb)."""
    ok_e, err_e, pend_e = [], [], []
    for sbb, st in body.switches():
        cond = body.expr_of_operand(st["switch"])
        if cond[0] != "discr":
            continue
        root, ch = _scrutinee_chain(cond[1])
        if root[0] != "call" or root[5] != call_bb:
            continue
        if ch == []:
            poll_level = is_poll
        elif ch == [("dc", "Ready"), ("f", 0)] and is_poll:
            poll_level = False
        else:
            continue
        tv = {int(v): tb for v, tb in st["targets"]}
        other = st["otherwise"] if body.term(st["otherwise"]) != "unreachable" else None
        for v in (0, 1):
            tb = tv.get(v)
            if tb is None and other is not None and len([x for x in (0, 1) if x not in tv]) == 1:
                tb = other
            if tb is None:
                continue
            if poll_level:
                if v == 1:
                    pend_e.append((sbb, tb))
            else:
                (ok_e if v == 0 else err_e).append((sbb, tb))
    return ok_e, err_e, pend_e


def _path_has_cmp(evs, callee, op, const):
    """Did the path establish `callee() <op> const`?  op: Eq, Ne, Le (<=), Lt0 (const < x)."""
    for ev in evs:
        if ev.kind != "branch":
            continue
        bt = bool_taken(ev)
        if bt is None:
            continue
        n = norm_cmp(ev.a, bt)
        if not n:
            continue
        o, a, c = n
        a, c = strip(a), strip(c)
        if op in ("Eq", "Ne") and o == op and call_matches(a, callee) and c[0] == "const" and c[1] == const:
            return True
        if op == "Le" and o == "Le" and call_matches(a, callee) and c[0] == "const" and c[1] == const:
            return True
        if op == "Lt0" and o == "Lt" and a[0] == "const" and a[1] == const and call_matches(c, callee):
            return True
    return False


def _path_builds_errorkind(evs, vname):
    for ev in evs:
        if ev.kind == "assign" and "agg" in ev.b and isinstance(ev.b["agg"], dict) and ev.b["agg"].get("vname") == vname:
            return True
    return False


# --------------------------------------------------------------------------------------
# recv loops

def recv_rules(F, R, variant):
    if variant == "blocking":
        b = F.one(krate="flatty_io", def_re=r"^flatty_io::blocking::recv::Receiver::<M, B>::recv$")
        read_names = ("ReadBuffer::read",)
        guard_new = "flatty_io::blocking::recv::RecvGuard::<'a, M, B>::new"
        fn = "blocking::recv::Receiver::recv"
    else:
        b = F.one(krate="flatty_io", def_re=r"^flatty_io::async_::recv::Receiver::<M, B>::recv::\{closure#0\}$")
        read_names = ("AsyncReadBuffer::read",)
        guard_new = "flatty_io::async_::recv::RecvGuard::<'a, M, B>::new"
        fn = "async_::recv::Receiver::recv"
    body = Body(b)
    R.count("functions_analysed")
    vc = find_calls(body, "FlatValidate::validate")
    gc = find_calls(body, "RecvGuard::<'a, M, B>::new")
    rc = find_calls(body, *read_names)
    if len(vc) != 1 or len(gc) != 1 or len(rc) != 1:
        R.anchor_lost("RV", fn, "expected one validate / RecvGuard::new / read call, found %d/%d/%d" % (len(vc), len(gc), len(rc)))
        return
    vbb, vt = vc[0]
    gbb, gt = gc[0]
    rbb, rt = rc[0]
    ve = body.expr_of_call(vt, 0, vbb)
    # RV1: validate is applied to the whole buffered window: Deref::deref(&self.buffer)
    arg = strip(ve[3][0])
    ok = call_matches(arg, "Deref::deref") and ve[2] and ve[2][0] == "M"
    R.ob("RV1.validate-window", fn, "validate-arg", ok, "M::validate is applied to everything buffered so far (found %s)" % show(arg)[:120],
         where=where(body, vbb))
    ok_e, err_e, _ = _result_edges(body, vbb, False)
    # RV2: guard only after validate Ok, no read/skip in between
    g_ok = bool(ok_e) and any(body.edge_dominates(e, gbb) for e in ok_e)
    if g_ok:
        for e in ok_e:
            for p in body.paths(e[1], stop=[gbb]):
                evs = events(body, p)
                for ev in evs:
                    if ev.kind == "call" and ev.bb != gbb and (call_matches(ev.b, *read_names) or call_matches(ev.b, "skip", "ReadBuffer::skip", "AsyncReadBuffer::skip")):
                        g_ok = False
    R.ob("RV2.guard-after-validate", fn, "RecvGuard::new", g_ok,
         "a RecvGuard is created only on the Ok edge of M::validate on the same buffer, with no read in between", where=where(body, gbb))
    # RV3: keyed on InsufficientSize: on the Err edge, switch on discr(e.kind): InsufficientSize -> read, others -> return Err(Parse)
    kinds = F.adts.get("flatty_base::error::ErrorKind")
    ins = None
    if kinds:
        for v in kinds["variants"]:
            if v["name"] == "InsufficientSize":
                ins = v["discr"]
    rv3 = ins is not None and bool(err_e)
    found_switch = False
    for sbb, st in body.switches():
        cond = body.expr_of_operand(st["switch"])
        if cond[0] == "discr" and root_call_bb(cond[1]) == vbb:
            x = strip(cond[1])
            # (validate as Err).0 .kind
            if x[0] == "field" and x[2] == F.adt_field_index("flatty_base::error::Error", "kind"):
                found_switch = True
                tv = {int(v): tb for v, tb in st["targets"]}
                # the read call must be reachable only through the InsufficientSize edge
                if ins in tv:
                    edge = (sbb, tv[ins])
                    if not body.edge_dominates(edge, rbb):
                        rv3 = False
                    other = st["otherwise"]
                    if rbb in body.reachable_from(other, avoid=[vbb]):
                        rv3 = False
                    # other edge returns Err(Parse(e))
                    parse_ok = False
                    for p in body.paths(other):
                        evs = events(body, p)
                        if _path_builds_errorkind(evs, "Parse"):
                            parse_ok = True
                        else:
                            parse_ok = False
                            break
                    rv3 = rv3 and parse_ok
                    for v2, tb2 in tv.items():
                        if v2 != ins and rbb in body.reachable_from(tb2, avoid=[vbb]):
                            rv3 = False
                else:
                    rv3 = False
    if not found_switch:
        # idiom 2: `e.kind == / != ErrorKind::InsufficientSize` through PartialEq
        kidx = F.adt_field_index("flatty_base::error::Error", "kind")
        for sbb, st in body.switches():
            cond = strip(body.expr_of_operand(st["switch"]))
            if cond[0] == "call" and call_matches(cond, "PartialEq::eq", "PartialEq::ne") and len(cond[3]) == 2:
                a, c = strip(cond[3][0]), strip(cond[3][1])
                is_kind = a[0] == "field" and a[2] == kidx and root_call_bb(a) == vbb
                is_ins = c[0] == "agg" and c[1][0] == "adt" and c[1][1] == "flatty_base::error::ErrorKind" and c[1][2] == "InsufficientSize"
                if is_kind and is_ins:
                    found_switch = True
                    tt = st["otherwise"]
                    ff = [b_ for v, b_ in st["targets"] if int(v) == 0][0]
                    eq = call_matches(cond, "PartialEq::eq")
                    ins_t, other_t = (tt, ff) if eq else (ff, tt)
                    rv3 = body.edge_dominates((sbb, ins_t), rbb) and rbb not in body.reachable_from(other_t, avoid=[vbb])
                    parse_ok = True
                    for p in body.paths(other_t, stop=[vbb]):
                        evs = events(body, p)
                        if p[-1] == vbb or not _path_builds_errorkind(evs, "Parse"):
                            parse_ok = False
                    rv3 = rv3 and parse_ok
    R.ob("RV3.keyed-on-insufficient-size", fn, "error-dispatch", rv3 and found_switch,
         "the receive loop reads more input exactly on ErrorKind::InsufficientSize; every other validation error is returned as Parse(e)",
         where=where(body, vbb))
    # RV4: closed: after the read, n == 0 => return Err(Closed) with no way back to the loop
    rv4 = False
    # find Eq(n,0) switch where n derives from the read call (through map_err/Try::branch/await)
    for sbb, st in body.switches():
        cond = body.expr_of_operand(st["switch"])
        if cond[0] == "bin" and cond[1] in ("Eq", "Ne"):
            a, c = strip(cond[2]), strip(cond[3])
            if c[0] == "const" and c[1] == 0 and _derives_from_read(body, a, rbb, variant):
                tt = st["otherwise"]
                ff = [b_ for v, b_ in st["targets"] if int(v) == 0][0]
                zero_t, nz_t = (tt, ff) if cond[1] == "Eq" else (ff, tt)
                closed = True
                for p in body.paths(zero_t, stop=[vbb]):
                    evs = events(body, p)
                    if p[-1] == vbb or evs[-1].kind == "loop" or not _path_builds_errorkind(evs, "Closed"):
                        closed = False
                # and the loop header is reachable from the read result only via the non-zero edge
                back_ok = vbb in body.reachable_from(nz_t) and body.edge_dominates((sbb, nz_t), vbb) is False
                # edge_dominates is about paths from entry; instead: removing the nz edge, validate not reachable from read block
                seen = set()
                stack = [rbb]
                while stack:
                    x = stack.pop()
                    if x in seen:
                        continue
                    seen.add(x)
                    for s_ in body.succ(x):
                        if x == sbb and s_ == nz_t:
                            continue
                        stack.append(s_)
                rv4 = closed and (vbb not in seen)
    R.ob("RV4.zero-read-is-closed", fn, "Ok(0)", rv4,
         "a zero-length read always ends recv with Closed; the loop continues only when n != 0", where=where(body, rbb))
    # RV5: read error returned as Read(e): map_err(RecvError::Read) then `?`
    rv5 = False
    for bb, t in body.calls():
        e = body.expr_of_call(t, 0, bb)
        if call_matches(e, "map_err") and len(e[3]) == 2:
            f = e[3][1]
            if f[0] == "fn" and f[1].endswith("RecvError::Read") and _derives_from_read(body, strip(e[3][0]), rbb, variant, allow_self=True):
                rv5 = True
    R.ob("RV5.read-error-surfaces", fn, "read-Err", rv5, "a pipe read error is returned to the caller as RecvError::Read(e)", where=where(body, rbb))
    # the Break edge returns (no loop)
    rv6 = True
    for sbb, st in body.switches():
        cond = body.expr_of_operand(st["switch"])
        if cond[0] == "discr":
            x = cond[1]
            while x[0] in ("downcast", "field", "deref", "ref"):
                x = x[1]
            if x[0] == "call" and call_matches(x, "Try::branch"):
                tv = {int(v): tb for v, tb in st["targets"]}
                if 1 in tv and vbb in body.reachable_from(tv[1]):
                    rv6 = False
    R.ob("RV5.error-escapes", fn, "read-Err-edge", rv6, "after a read error recv returns; it does not loop", where=where(body, rbb))


def _derives_from_read(body, e, rbb, variant, allow_self=False, depth=0):
    """e derives (through downcast/field/Try::branch/map_err/poll of the Read future) from the read call at rbb."""
    e = strip(e)
    if depth > 12:
        return False
    if e[0] in ("downcast", "field"):
        return _derives_from_read(body, e[1], rbb, variant, allow_self, depth + 1)
    if e[0] == "call":
        if len(e) > 5 and e[5] == rbb:
            return True
        if call_matches(e, "Try::branch", "map_err", "Future::poll", "IntoFuture::into_future", "Pin::<Ptr>::new_unchecked", "new_unchecked"):
            return _derives_from_read(body, e[3][0], rbb, variant, allow_self, depth + 1)
    if e[0] == "local":
        # multi-def or state-machine slot: accept when some definition derives from the read
        for (bb, idx, r) in body.defs().get(e[1], []):
            ee = body.expr_of_call(r, 0, bb) if idx == "term" else body.expr_of_rvalue(r)
            if _derives_from_read(body, ee, rbb, variant, allow_self, depth + 1):
                return True
        # coroutine: the Read future is stored in the state and polled later
        if variant == "async":
            return _async_slot_from_read(body, rbb)
    if e[0] in ("deref", "ref"):
        return _derives_from_read(body, e[1], rbb, variant, allow_self, depth + 1)
    if e[0] == "param" and variant == "async":
        # a slot of the coroutine state: the Read future is parked there across the await
        return _async_slot_from_read(body, rbb)
    return False


def _async_slot_from_read(body, rbb):
    # the future produced by read() (through into_future) is stored into a coroutine state field
    for bb, i, s in body.assigns():
        if s["l"]["p"]:
            e = body.expr_of_rvalue(s["r"])
            e = strip(e)
            if e[0] == "call" and call_matches(e, "IntoFuture::into_future") and root_call_bb(strip(e[3][0])) == rbb:
                return True
    return False


# --------------------------------------------------------------------------------------
# guards: drop consumes size(), send sends size()

def guard_rules(F, R):
    for variant, mod, skipname in (("blocking", "flatty_io::blocking::recv", "ReadBuffer::skip"),
                                   ("async", "flatty_io::async_::recv", "AsyncReadBuffer::skip")):
        b = F.one(krate="flatty_io", trait="core::ops::drop::Drop", method="drop", self_adt=mod + "::RecvGuard")
        body = Body(b)
        R.count("functions_analysed")
        fn = "%s::RecvGuard::drop" % ("blocking" if variant == "blocking" else "async_")
        sk = find_calls(body, skipname)
        ok = len(sk) == 1
        if ok:
            sbb, st = sk[0]
            e = body.expr_of_call(st, 0, sbb)
            cnt = strip(e[3][1])
            ok = call_matches(cnt, "FlatBase::size") and call_matches(strip(cnt[3][0]), "Deref::deref")
            if ok:
                inner = strip(strip(cnt[3][0])[3][0])
                ok = inner[0] == "param" and inner[1] == 1
            recv = strip(e[3][0])
            ok = ok and recv[0] == "field" and recv[2] == F.adt_field_index(mod + "::RecvGuard", "buffer")
        R.ob("G1.drop-consumes-size", fn, "skip-arg", ok,
             "dropping a RecvGuard skips exactly size() of the message it guards, on its own buffer", where=b["span"])
        d = F.one(krate="flatty_io", trait="core::ops::deref::Deref", method="deref", self_adt=mod + "::RecvGuard")
        db = Body(d)
        R.count("functions_analysed")
        ok = False
        for bb, t in db.calls():
            e = db.expr_of_call(t, 0, bb)
            if call_matches(e, "FlatUnsized::from_bytes_unchecked"):
                a = strip(e[3][0])
                # deref of self.buffer
                while a[0] == "call" and call_matches(a, "Deref::deref"):
                    a = strip(a[3][0])
                ok = a[0] == "field" and a[2] == F.adt_field_index(mod + "::RecvGuard", "buffer")
        R.ob("G2.guard-views-buffer", fn.replace("drop", "deref"), "deref", ok,
             "the guard's message is the validated window of its own buffer", where=d["span"])
    for variant, mod in (("blocking", "flatty_io::blocking::send"), ("async", "flatty_io::async_::send")):
        b = F.one(krate="flatty_io", def_re=r"^%s::SendGuard::<'a, M, B>::send$" % mod)
        body = Body(b)
        R.count("functions_analysed")
        fn = "%s::SendGuard::send" % ("blocking" if variant == "blocking" else "async_")
        wa = find_calls(body, "WriteBuffer::write_all", "AsyncWriteBuffer::write_all")
        ok = len(wa) == 1
        if ok:
            wbb, wt = wa[0]
            e = body.expr_of_call(wt, 0, wbb)
            cnt = strip(e[3][1])
            ok = call_matches(cnt, "FlatBase::size") and call_matches(strip(cnt[3][0]), "Deref::deref")
            recv = strip(e[3][0])
            ok = ok and recv[0] == "field" and recv[2] == F.adt_field_index(mod + "::SendGuard", "buffer")
        R.ob("G3.send-writes-size", fn, "write_all-arg", ok, "send() hands exactly size() bytes of the message to write_all", where=b["span"])
    # skip forwarders
    for tr, nm in (("flatty_io::blocking::recv::ReadBuffer", "blocking::io::skip"), ("flatty_io::async_::recv::AsyncReadBuffer", "async_::io::skip")):
        b = F.one(krate="flatty_io", trait=tr, method="skip", self_adt=IOBUF)
        body = Body(b)
        R.count("functions_analysed")
        sk = find_calls(body, "Buffer::skip")
        ok = len(sk) == 1
        if ok:
            e = body.expr_of_call(sk[0][1], 0, sk[0][0])
            a = strip(e[3][1])
            ok = a[0] == "param" and a[1] == 2
        R.ob("G4.skip-forwards", nm, "skip", ok, "IoBuffer::skip(count) forwards count unchanged to the window", where=b["span"])
    # alloc: advance(vacant_len) guarded by n > 0
    for tr, m, nm in (("flatty_io::blocking::send::WriteBuffer", "alloc", "blocking::io::alloc"),
                      ("flatty_io::async_::send::AsyncWriteBuffer", "poll_alloc", "async_::io::poll_alloc")):
        b = F.one(krate="flatty_io", trait=tr, method=m, self_adt=IOBUF)
        body = Body(b)
        R.count("functions_analysed")
        adv = find_calls(body, "Buffer::advance")
        ok = len(adv) == 1
        if ok:
            e = body.expr_of_call(adv[0][1], 0, adv[0][0])
            a = strip(e[3][1])
            ok = call_matches(a, "Buffer::vacant_len")
        R.ob("G5.alloc-advances-vacant", nm, "advance-arg", ok, "alloc makes exactly the vacant part occupied (advance(vacant_len()))", where=b["span"])


# --------------------------------------------------------------------------------------
# window arithmetic (E5 F5) and who-may-write

def window_rules(F, R):
    win = fidx(F, BUFFER, "window")

    def get(name):
        return F.one(krate="flatty_io", def_re=r"^flatty_io::common::io::Buffer::%s$" % name)

    def wfield(e, which):
        """e is self.window.start / .end ?"""
        e = strip(e)
        idx = 0 if which == "start" else 1
        if e[0] == "field" and e[2] == idx:
            b_ = strip(e[1])
            return b_[0] == "field" and b_[2] == win and strip(b_[1])[0] == "param"
        return False

    # skip
    b = get("skip")
    body = Body(b)
    R.count("functions_analysed")
    st_ok = False
    for bb, i, s in body.assigns():
        k = place_is_field(body, s["l"], BUFFER, win)
        if k is not None and len(s["l"]["p"]) == k + 2 and s["l"]["p"][k + 1].get("f") == 0:
            rhs = body.expr_of_rvalue(s["r"])
            if rhs[0] == "bin" and rhs[1] == "Add" and wfield(rhs[2], "start") and strip(rhs[3])[0] == "param" and strip(rhs[3])[1] == 2:
                st_ok = True
    R.ob("F5.skip-add", "common::io::Buffer::skip", "start+=count", st_ok, "skip(count) advances window.start by exactly count", where=b["span"])
    # assertion start <= end : a switch on Le(start,end)/Gt whose failing edge diverges
    as_ok = False
    for sbb, st in body.switches():
        cond = body.expr_of_operand(st["switch"])
        for truth, tgt in ((True, st["otherwise"]), (False, [b_ for v, b_ in st["targets"] if int(v) == 0][0] if st["targets"] else None)):
            n = norm_cmp(cond, truth)
            if n and n[0] == "Lt" and wfield(n[1], "end") and wfield(n[2], "start"):
                # start > end edge must diverge
                if tgt is not None and not any(body.term(x) == "return" for x in body.reachable_from(tgt)):
                    as_ok = True
    R.ob("F5.skip-bound", "common::io::Buffer::skip", "assert", as_ok, "skip refuses to move start past end (assertion diverges)", where=b["span"])
    # reset only when empty: stores of whole window in skip are Range{0,0} and dominated by is_empty true edge
    rs_ok = True
    nreset = 0
    for bb, i, s in body.assigns():
        k = place_is_field(body, s["l"], BUFFER, win)
        if k is not None and len(s["l"]["p"]) == k + 1:
            nreset += 1
            rhs = body.expr_of_rvalue(s["r"])
            z = rhs[0] == "agg" and all(strip(x) == ("const", 0, "usize") for x in rhs[2])
            dom = False
            for sbb, st in body.switches():
                cond = strip(body.expr_of_operand(st["switch"]))
                if cond[0] == "call" and call_matches(cond, "is_empty") and body.edge_dominates((sbb, st["otherwise"]), bb):
                    dom = True
            rs_ok = rs_ok and z and dom
    R.ob("F5.skip-reset", "common::io::Buffer::skip", "reset", rs_ok and nreset <= 1,
         "skip resets the window to 0..0 only when it has become empty", where=b["span"])
    # advance
    b = get("advance")
    body = Body(b)
    R.count("functions_analysed")
    st_ok = False
    for bb, i, s in body.assigns():
        k = place_is_field(body, s["l"], BUFFER, win)
        if k is not None and len(s["l"]["p"]) == k + 2 and s["l"]["p"][k + 1].get("f") == 1:
            rhs = body.expr_of_rvalue(s["r"])
            if rhs[0] == "bin" and rhs[1] == "Add" and wfield(rhs[2], "end") and strip(rhs[3])[0] == "param" and strip(rhs[3])[1] == 2:
                st_ok = True
    R.ob("F5.advance-add", "common::io::Buffer::advance", "end+=count", st_ok, "advance(count) moves window.end by exactly count", where=b["span"])
    as_ok = False
    for sbb, st in body.switches():
        cond = body.expr_of_operand(st["switch"])
        for truth, tgt in ((True, st["otherwise"]), (False, [b_ for v, b_ in st["targets"] if int(v) == 0][0] if st["targets"] else None)):
            n = norm_cmp(cond, truth)
            if n and n[0] == "Lt" and call_matches(strip(n[1]), "Buffer::capacity") and wfield(n[2], "end"):
                if tgt is not None and not any(body.term(x) == "return" for x in body.reachable_from(tgt)):
                    as_ok = True
    R.ob("F5.advance-bound", "common::io::Buffer::advance", "assert", as_ok, "advance refuses to move end past the capacity (assertion diverges)", where=b["span"])
    # make_contiguous: copy_within(window.clone(), 0) BEFORE window := 0..end-start
    b = get("make_contiguous")
    body = Body(b)
    R.count("functions_analysed")
    cw = find_calls(body, "copy_within")
    mc_ok = len(cw) == 1
    idiom = "copy_within"
    if mc_ok:
        cbb, ct = cw[0]
        e = body.expr_of_call(ct, 0, cbb)
        src, dst = strip(e[3][1]), strip(e[3][2])
        src_ok = call_matches(src, "Clone::clone") and strip(src[3][0])[0] == "field" and strip(src[3][0])[2] == win
        mc_ok = src_ok and dst == ("const", 0, "usize")
        # data operand is self.data
        d = strip(e[3][0])
        while d[0] == "call" and call_matches(d, "DerefMut::deref_mut", "Deref::deref"):
            d = strip(d[3][0])
        mc_ok = mc_ok and d[0] == "field" and d[2] == fidx(F, BUFFER, "data")
        # every store to window happens after copy_within
        stores = stores_to_field(body, BUFFER, win)
        for (sbb, i, s) in stores:
            if not body.dominates(cbb, sbb) or sbb == cbb:
                mc_ok = False
        # and the clone feeding copy_within is evaluated before any store: clone call block dominates stores too
        good_new = False
        for (sbb, i, s) in stores:
            rhs = body.expr_of_rvalue(s["r"])
            if rhs[0] == "agg" and len(rhs[2]) == 2 and strip(rhs[2][0]) == ("const", 0, "usize"):
                x = strip(rhs[2][1])
                if x[0] == "bin" and x[1] == "Sub" and wfield(x[2], "end") and wfield(x[3], "start"):
                    good_new = True
        mc_ok = mc_ok and good_new and len(stores) == 1
    R.ob("F5.compaction", "common::io::Buffer::make_contiguous", "copy+window", mc_ok,
         "compaction moves the occupied bytes to offset 0 with an overlap-safe copy_within(window, 0) and only then sets window = 0..end-start"
         + ("" if cw else " (unrecognised compaction idiom: no copy_within)"), where=b["span"])
    # clear
    b = get("clear")
    body = Body(b)
    R.count("functions_analysed")
    ok = False
    for bb, i, s in body.assigns():
        k = place_is_field(body, s["l"], BUFFER, win)
        if k is not None and len(s["l"]["p"]) == k + 1:
            rhs = body.expr_of_rvalue(s["r"])
            ok = rhs[0] == "agg" and all(strip(x) == ("const", 0, "usize") for x in rhs[2])
    R.ob("F5.clear", "common::io::Buffer::clear", "window", ok, "clear() empties the window (0..0)", where=b["span"])
    # getters
    for name, check in (("preceding_len", lambda e: wfield(e, "start")),
                        ("occupied_len", lambda e: e[0] == "bin" and e[1] == "Sub" and wfield(e[2], "end") and wfield(e[3], "start")),
                        ("vacant_len", lambda e: e[0] == "bin" and e[1] == "Sub" and call_matches(strip(e[2]), "Buffer::capacity") and wfield(e[3], "end"))):
        b = get(name)
        body = Body(b)
        R.count("functions_analysed")
        ok = False
        for bb, i, s in body.assigns():
            if s["l"]["v"] == 0 and not s["l"]["p"]:
                ok = check(strip(body.expr_of_rvalue(s["r"])))
        R.ob("F5.getter", "common::io::Buffer::" + name, "value", ok, "%s() is the window arithmetic it names" % name, where=b["span"])
    b = get("capacity")
    from e5_formulas import canon as _canon, the_return as _the_return
    R.count("functions_analysed")
    rets = _the_return(Body(b))
    okc = len(rets) == 1 and re.fullmatch(r"core::slice::<impl \[T\]>::len\((<[^()]*AlignedBytes as core::ops::deref::Deref>::deref|<[^()]*AlignedBytes as core::convert::AsRef<\[u8\]>>::as_ref)\(\$self\.0\)\)", rets[0]) is not None
    R.ob("F5.getter", "common::io::Buffer::capacity", "value", okc, "capacity() is the length of the allocation (%s)" % rets, where=b["span"])
    for name, rng in (("occupied", "window"), ("occupied_mut", "window"), ("vacant_mut", "from-end")):
        b = get(name)
        body = Body(b)
        R.count("functions_analysed")
        ok = False
        for bb, t in body.calls():
            e = body.expr_of_call(t, 0, bb)
            if call_matches(e, "Index::index", "IndexMut::index_mut"):
                r_ = strip(e[3][1])
                if rng == "window":
                    ok = call_matches(r_, "Clone::clone") and strip(r_[3][0])[0] == "field" and strip(r_[3][0])[2] == win
                else:
                    ok = r_[0] == "agg" and r_[1][0] == "adt" and r_[1][1] == "core::ops::range::RangeFrom" and wfield(r_[2][0], "end")
        R.ob("F5.view", "common::io::Buffer::" + name, "range", ok, "%s() slices the data by %s" % (name, "the window" if rng == "window" else "window.end.."), where=b["span"])
    # who may write window / poisoned
    writers = set()
    pwriters = set()
    pois = fidx(F, IOBUF, "poisoned")
    nbod = 0
    for bj in F.poly(krate="flatty_io"):
        body = Body(bj)
        nbod += 1
        if stores_to_field(body, BUFFER, win):
            writers.add(bj["def"])
        for (bb, i, s) in stores_to_field(body, IOBUF, pois):
            pwriters.add(bj["def"])
        # aggregate construction of Buffer / IoBuffer
        for bb, i, s in body.assigns():
            r = s["r"]
            if "agg" in r and isinstance(r["agg"], dict) and r["agg"].get("adt") == BUFFER:
                writers.add(bj["def"])
            if "agg" in r and isinstance(r["agg"], dict) and r["agg"].get("adt") == IOBUF:
                pwriters.add(bj["def"])
    allowed = {"flatty_io::common::io::Buffer::%s" % n for n in ("new", "clear", "skip", "advance", "make_contiguous")}
    R.ob("F5.who-writes-window", "flatty_io", "window-writers", writers <= allowed and len(writers) >= 4,
         "Buffer.window is written only by Buffer::{new,clear,skip,advance,make_contiguous} (found %s)" % sorted(w.split("::")[-1] for w in writers),
         where="io/src/common/io.rs")
    vis = F.adt_field(BUFFER, "window")["vis"]
    R.ob("F5.window-private", "flatty_io", "window-vis", "Restricted" in vis or "private" in vis.lower(),
         "Buffer.window is not a public field (%s)" % vis, nontrivial=False)
    allowedp = {"flatty_io::common::io::IoBuffer::<P>::new",
                "flatty_io::blocking::io::<impl flatty_io::blocking::send::WriteBuffer for flatty_io::common::io::IoBuffer<P>>::write_all",
                "<flatty_io::async_::io::WriteAll<'a, P> as core::future::future::Future>::poll"}
    R.ob("F5.who-writes-poisoned", "flatty_io", "poisoned-writers", pwriters <= allowedp,
         "IoBuffer.poisoned is written only by the constructor and the two write loops (found %s)" % sorted(pwriters), where="io/src")
    R.count("bodies_scanned_for_writers", nbod)
    # constructor: poisoned false, window 0..0
    b = F.one(krate="flatty_io", def_re=r"^flatty_io::common::io::IoBuffer::<P>::new$")
    body = Body(b)
    ok = False
    for bb, i, s in body.assigns():
        r = s["r"]
        if "agg" in r and isinstance(r["agg"], dict) and r["agg"].get("adt") == IOBUF:
            e = body.expr_of_rvalue(r)
            ok = strip(e[2][pois]) == ("const", 0, "bool")
    R.ob("F5.ctor", "common::io::IoBuffer::new", "poisoned=false", ok, "a fresh IoBuffer is not poisoned", where=b["span"])


def guard_ctor_rules(F, R):
    """who-may-construct RecvGuard (C10)."""
    for mod in ("flatty_io::blocking::recv", "flatty_io::async_::recv"):
        adt = mod + "::RecvGuard"
        ctor_sites = []
        for bj in F.poly(krate="flatty_io"):
            body = Body(bj)
            for bb, i, s in body.assigns():
                r = s["r"]
                if "agg" in r and isinstance(r["agg"], dict) and r["agg"].get("adt") == adt:
                    ctor_sites.append(bj["def"])
        R.ob("G6.guard-ctor", mod, "aggregate-sites", set(ctor_sites) == {mod + "::RecvGuard::<'a, M, B>::new"},
             "RecvGuard values are built only inside RecvGuard::new (found %s)" % sorted(set(ctor_sites)), where=mod)
        fnrec = F.fns.get(mod + "::RecvGuard::<'a, M, B>::new")
        vis = fnrec["vis"] if fnrec else "?"
        R.ob("G6.guard-new-vis", mod, "new-vis", fnrec is not None and "Public" not in vis,
             "RecvGuard::new is not public (%s): only recv can hand out guards" % vis, nontrivial=False)
        callers = []
        for bj in F.poly(krate="flatty_io"):
            body = Body(bj)
            if find_calls(body, mod + "::RecvGuard::<'a, M, B>::new"):
                callers.append(bj["def"])
        exp = {mod + "::Receiver::<M, B>::recv", mod + "::Receiver::<M, B>::recv::{closure#0}"}
        R.ob("G6.guard-callers", mod, "new-callers", set(callers) <= exp and callers,
             "RecvGuard::new is called only from Receiver::recv (found %s)" % callers, where=mod)
        for fld in ("buffer",):
            v = F.adt_field(adt, fld)["vis"]
            R.ob("G6.guard-field-vis", mod, fld, "Public" not in v, "RecvGuard.%s is not public (%s)" % (fld, v), nontrivial=False)


def _zero_fact(cond, truth, canon_fn):
    """A branch outcome that compares an unsigned expression with zero: returns (expr, is_nonzero) or None.
    Recognises ==, !=, > 0, >= 1, < 1, <= 0 in either operand order (through norm_cmp's Lt/Le/Eq/Ne normal form)."""
    n_ = norm_cmp(cond, truth)
    if not n_:
        return None
    op, a, b = n_[0], canon_fn(n_[1]), canon_fn(n_[2])
    if op in ("Eq", "Ne"):
        if a == "0":
            return b, op == "Ne"
        if b == "0":
            return a, op == "Ne"
        return None
    if op == "Lt":
        if a == "0":
            return b, True      # 0 < x
        if b == "1":
            return a, False     # x < 1
    if op == "Le":
        if b == "0":
            return a, False     # x <= 0
        if a == "1":
            return b, True      # 1 <= x
    return None


def ctor_rules(F, R, variant):
    """A1-A3: the receive/send buffer starts at an address aligned for the message type and is large enough for one message.

    Every message view is `from_bytes(&buffer[window.start..])`; window.start is 0 after a reset/compaction and otherwise advances by
    size() (multiple of ALIGN: F2.*), so the alignment of every view reduces to the alignment of the allocation itself."""
    from e5_formulas import canon
    from e5_formulas import canon as _canon
    import re as _re
    inner = r"(\$max_msg_len|core::cmp::Ord::max\((\$max_msg_len, [^()]+|[^()]+, \$max_msg_len)\))"
    cap_re = _re.compile(r"^(Mul\((\d+), )?%s\)?$" % inner)   # k * max_msg_len or k * max(max_msg_len, c), k >= 1
    n = 0
    pre = "blocking" if variant == "blocking" else "async_"
    for mod, ty in ((pre + "::recv", "Receiver"), (pre + "::send", "Sender")):
        bj = F.one(krate="flatty_io", def_re=r"^flatty_io::%s::%s::<M, flatty_io::common::io::IoBuffer<P>>::io$" % (mod, ty))
        body = Body(bj)
        R.count("functions_analysed")
        calls = find_calls(body, IOBUF + "::<P>::new")
        label = "%s::%s::io" % (mod, ty)
        if len(calls) != 1:
            R.ob("A1.ctor-align", label, "IoBuffer::new", False, "expected exactly one IoBuffer::new call, found %d" % len(calls), where=bj["span"])
            continue
        bb, t = calls[0]
        e = body.expr_of_call(t, 0, bb)
        args = [canon(a) for a in e[3]]
        R.ob("A1.ctor-align", label, "align-arg", len(args) == 3 and args[2] == "<M as FlatBase>::ALIGN",
             "the buffer is allocated with the alignment of the message type (align argument = %s)" % (args[2] if len(args) == 3 else args), where=bj["span"])
        m = cap_re.match(args[1]) if len(args) == 3 else None
        R.ob("A1.ctor-capacity", label, "capacity-arg", bool(m) and (m.group(2) is None or int(m.group(2)) >= 1),
             "the buffer holds at least max_msg_len bytes (capacity argument = %s)" % (args[1] if len(args) == 3 else args), where=bj["span"])
        n += 1
        # sibling agreement: the blocking and the async constructor of the same end size their buffer by the same formula
        other = "async_" if pre == "blocking" else "blocking"
        try:
            sj = F.one(krate="flatty_io", def_re=r"^flatty_io::%s::%s::<M, flatty_io::common::io::IoBuffer<P>>::io$" % (mod.replace(pre, other), ty))
            sb = Body(sj)
            sc = find_calls(sb, IOBUF + "::<P>::new")
            sargs = [canon(a) for a in sb.expr_of_call(sc[0][1], 0, sc[0][0])[3]] if len(sc) == 1 else None
        except Exception:
            sargs = None
        R.ob("A4.ctor-siblings", label, "capacity-arg", sargs is not None and len(sargs) == 3 and len(args) == 3 and sargs[1] == args[1],
             "the blocking and the async %s::io size their buffer by the same formula (%s vs %s)" % (ty, args[1] if len(args) == 3 else args,
                                                                                              sargs[1] if sargs and len(sargs) == 3 else sargs), where=bj["span"])
    # forwarding chain
    for dre, callee, label in ((r"^flatty_io::common::io::IoBuffer::<P>::new$", BUFFER + "::new", "IoBuffer::new"),
                               (r"^flatty_io::common::io::Buffer::new$", "flatty_containers::bytes::AlignedBytes::new", "Buffer::new")):
        bj = F.one(krate="flatty_io", def_re=dre)
        body = Body(bj)
        R.count("functions_analysed")
        calls = find_calls(body, callee)
        ok = len(calls) == 1
        got = None
        if ok:
            e = body.expr_of_call(calls[0][1], 0, calls[0][0])
            got = [canon(a) for a in e[3]]
            ok = got == ["$capacity", "$align"]
        R.ob("A2.ctor-forward", label, callee.split("::")[-2] + "::new", ok, "%s forwards (capacity, align) unchanged (got %s)" % (label, got), where=bj["span"])
        n += 1
        if label == "Buffer::new":
            rets = [canon(body.expr_of_rvalue(s["r"])) for b_, i, s in body.assigns() if s["l"]["v"] == 0 and not s["l"]["p"]]
            R.ob("A2.ctor-window", label, "window", len(rets) == 1 and rets[0].endswith(", Range{0, 0}}"),
                 "a new buffer starts with the empty window 0..0 (%s)" % [r[-40:] for r in rets], where=bj["span"])
    # the allocation
    bj = F.one(krate="flatty_containers", def_re=r"^flatty_containers::bytes::AlignedBytes::new$")
    body = Body(bj)
    R.count("functions_analysed")
    rets = [canon(body.expr_of_rvalue(s["r"])) for b_, i, s in body.assigns() if s["l"]["v"] == 0 and not s["l"]["p"]]
    lay = "core::result::Result::<T, E>::unwrap(core::alloc::layout::Layout::from_size_align($size, $align))"
    exp = "AlignedBytes{alloc::alloc::alloc(%s), %s}" % (lay, lay)
    exp2 = "AlignedBytes{alloc::alloc::alloc_zeroed(%s), %s}" % (lay, lay)
    ok_old = len(rets) == 1 and rets[0] in (exp, exp2)
    # repaired form: the pointer is a local with two definitions (allocation / dangling aligned pointer for size 0), evaluated per path
    ok_new, zero_guard = False, False
    ac = find_calls(body, "alloc::alloc::alloc", "alloc::alloc::alloc_zeroed")
    if len(rets) == 1 and rets[0] == "AlignedBytes{%%data, %s}" % lay and len(ac) == 1 and _canon(body.expr_of_call(ac[0][1], 0, ac[0][0])[3][0]) == lay:
        ok_new = True
        for pth in body.paths(0):
            if body.term(pth[-1]) != "return":
                continue
            zero, val = None, None
            for ev in events(body, pth):
                if ev.kind == "branch" and ev.a[0] == "bin":
                    bt = bool_taken(ev)
                    zf = _zero_fact(ev.a, bt, _canon) if bt is not None else None
                    if zf and zf[0] in ("core::alloc::layout::Layout::size(%s)" % lay, "$size"):
                        zero = not zf[1]
                elif ev.kind == "call":
                    dl = ev.a.get("dest")
                    if dl and not dl["p"] and body.local_name(dl["v"]) == "data":
                        val = _canon(ev.b)
            if zero is True:
                ok_new = ok_new and val == "core::ptr::mut_ptr::<impl *mut T>::wrapping_add(core::ptr::null_mut(), core::alloc::layout::Layout::align(%s))" % lay
            else:
                ok_new = ok_new and val is not None and val.startswith("alloc::alloc::alloc") and val.endswith("(%s)" % lay)
            if zero is None:
                ok_new = False
        zero_guard = ok_new
    R.ob("A3.alloc-layout", "AlignedBytes::new", "alloc", ok_old or ok_new,
         "AlignedBytes::new allocates Layout::from_size_align(size, align) (an aligned dangling pointer when the size is 0) and records that layout (%s)" % [r[:200] for r in rets],
         where=bj["span"])
    # GlobalAlloc::alloc must not be called with a zero-sized layout (undefined behaviour): io(pipe, 0) for a zero-sized message type and every
    # zero-length AlignedBytes go through here
    dbj = F.one(krate="flatty_containers", def_re=r"^<flatty_containers::bytes::AlignedBytes as core::ops::drop::Drop>::drop$")
    db = Body(dbj)
    dc = find_calls(db, "alloc::alloc::dealloc")
    drop_guard = False
    if len(dc) == 1:
        for sbb, st in db.switches():
            cnd = db.expr_of_operand(st["switch"])
            for truth in (True, False):
                zf = _zero_fact(cnd, truth, _canon)
                if zf and zf[1] and zf[0] == "core::alloc::layout::Layout::size($self.1)":
                    ft = [b_ for v, b_ in st["targets"] if int(v) == 0]
                    tgt = st["otherwise"] if truth else (ft[0] if ft else None)
                    if tgt is not None and db.edge_dominates((sbb, tgt), dc[0][0]):
                        drop_guard = True
    R.ob("A3.no-zero-alloc", "AlignedBytes::new / drop", "size != 0", zero_guard and drop_guard,
         "alloc / dealloc are called only for a non-zero size (a zero-sized layout is undefined behaviour for the global allocator): "
         "new guards alloc: %s, drop guards dealloc: %s" % (zero_guard, drop_guard), where=bj["span"])
    for meth, raw in (("as_ref", "from_raw_parts"), ("as_mut", "from_raw_parts_mut")):
        bj = F.one(krate="flatty_containers", def_re=r"^<flatty_containers::bytes::AlignedBytes as core::convert::As(Ref|Mut)<\[u8\]>>::%s$" % meth)
        body = Body(bj)
        R.count("functions_analysed")
        calls = find_calls(body, raw)
        got = None
        if len(calls) == 1:
            e = body.expr_of_call(calls[0][1], 0, calls[0][0])
            got = [canon(a) for a in e[3]]
        R.ob("A3.alloc-view", "AlignedBytes::" + meth, raw, got is not None and len(got) == 2 and _re.fullmatch(r"\$self\.0", got[0]) is not None
             and _re.fullmatch(r"core::alloc::layout::Layout::size\(\$self\.1\)", got[1]) is not None,
             "the byte view of the allocation is (data, layout.size()) (got %s)" % got, where=bj["span"])
    # who may build an AlignedBytes
    sites = set()
    for b2 in F.poly(krate="flatty_containers"):
        bd = Body(b2)
        for bb, i, s in bd.assigns():
            r = s["r"]
            if "agg" in r and isinstance(r["agg"], dict) and r["agg"].get("adt") == "flatty_containers::bytes::AlignedBytes":
                sites.add(b2["def"])
    R.ob("A3.alloc-ctor", "AlignedBytes", "aggregate-sites", sites == {"flatty_containers::bytes::AlignedBytes::new"},
         "AlignedBytes values are built only in AlignedBytes::new (found %s)" % sorted(sites))
    for fld in ("data", "layout"):
        v = F.adt_field("flatty_containers::bytes::AlignedBytes", fld)["vis"]
        R.ob("A3.alloc-field-vis", "AlignedBytes", fld, "Public" not in v, "AlignedBytes.%s is not public (%s)" % (fld, v), nontrivial=False)
    R.floor("A", "buffer constructors analysed", n, 4)
