"""E5: value formulas of small pure functions as canonical expression trees.

canon(expr) strips references/copies/pointer casts, flattens and sorts operands of commutative operators
and prints a normal form.  Rules compare the normal form of what a function returns (or passes to a callee)
with the formula the property needs.  Equivalent rewrites (operand order, temporaries, let-bindings) have the
same normal form; a genuinely different computation does not.
"""
import re
from facts import AnchorLost
from mir import Body, strip, walk
from paths import events, call_matches, find_calls, bool_taken, norm_cmp

COMM = {"Add", "Mul", "BitAnd", "BitOr", "BitXor", "Eq", "Ne"}
COMM_CALLS = ("flatty_base::utils::max", "flatty_base::utils::min")

SHORT = [
    ("flatty_base::traits::FlatBase", "FlatBase"),
    ("flatty_base::traits::FlatSized", "FlatSized"),
    ("flatty_base::traits::FlatUnsized", "FlatUnsized"),
    ("flatty_base::traits::FlatValidate", "FlatValidate"),
    ("flatty_base::utils::iter::", "iter::"),
    ("flatty_base::utils::mem::", "mem::"),
    ("flatty_base::utils::", "utils::"),
    ("flatty_containers::", "fc::"),
]


def short(s):
    for a, b in SHORT:
        s = s.replace(a, b)
    return s


def canon(e, depth=0):
    e = strip(e)
    if depth > 40:
        return "..."
    k = e[0]
    if k == "const":
        return str(e[1])
    if k == "param":
        return "$%s" % (e[2] or e[1])
    if k == "local":
        return "%%%s" % (e[2] or e[1])
    if k == "uneval":
        return short(e[1])
    if k == "fn":
        return "fn(%s)" % short(e[1])
    if k == "bin":
        op = e[1]
        a, b = canon(e[2], depth + 1), canon(e[3], depth + 1)
        if op in COMM:
            # flatten
            parts = []
            for x in (e[2], e[3]):
                sx = strip(x)
                if sx[0] == "bin" and sx[1] == op:
                    parts.append(canon(sx[2], depth + 1))
                    parts.append(canon(sx[3], depth + 1))
                else:
                    parts.append(canon(x, depth + 1))
            return "%s(%s)" % (op, ", ".join(sorted(parts)))
        return "%s(%s, %s)" % (op, a, b)
    if k == "un":
        return "%s(%s)" % (e[1], canon(e[2], depth + 1))
    if k == "cast":
        # value-changing casts keep the target type
        return "(%s as %s)" % (canon(e[2], depth + 1), short(e[3]))
    if k == "call":
        name = e[4] or e[1]
        args = [canon(a, depth + 1) for a in e[3]]
        if name in COMM_CALLS:
            args = sorted(args)
        return "%s(%s)" % (short(name), ", ".join(args))
    if k == "field":
        return "%s.%d" % (canon(e[1], depth + 1), e[2])
    if k == "downcast":
        return "(%s as %s)" % (canon(e[1], depth + 1), e[2])
    if k == "discr":
        return "discr(%s)" % canon(e[1], depth + 1)
    if k == "agg":
        kind = e[1]
        nm = kind[-1] if kind[0] == "adt" else kind[0]
        return "%s{%s}" % (nm, ", ".join(canon(a, depth + 1) for a in e[2]))
    if k == "index":
        return "%s[%s]" % (canon(e[1], depth + 1), canon(e[2], depth + 1))
    if k == "kconst":
        return "k(%s)" % e[1]
    return str(e)[:60]


def return_exprs(body):
    """Canonical forms of every value assigned to the return place."""
    out = []
    for bb, i, s in body.assigns():
        if s["l"]["v"] == 0 and not s["l"]["p"]:
            out.append(canon(body.expr_of_rvalue(s["r"])))
    for bb, t in body.calls():
        if t.get("dest") and t["dest"]["v"] == 0 and not t["dest"]["p"]:
            out.append(canon(body.expr_of_call(t, 0, bb)))
    return out


def the_return(body):
    r = sorted(set(return_exprs(body)))
    return r


def call_arg(body, callee_suffixes, idx):
    out = []
    for bb, t in find_calls(body, *callee_suffixes):
        e = body.expr_of_call(t, 0, bb)
        if idx < len(e[3]):
            out.append(canon(e[3][idx]))
    return out


# --------------------------------------------------------------------------------------
# table of formulas on the generic library source

A = lambda t: "<%s as FlatBase>::ALIGN" % t
S = lambda t: "<%s as FlatSized>::SIZE" % t
MS = lambda t: "<%s as FlatBase>::MIN_SIZE" % t

BASE_RETURNS = [
    # (selector kwargs, expected set of canonical returns, property clause)
    (dict(krate="flatty_base", def_re=r"^flatty_base::utils::ceil_mul$"), ["Mul($m, Div(Sub(Add($m, $x), 1), $m))"],
     "ceil_mul(x, m) = ((x + m - 1) / m) * m"),
    (dict(krate="flatty_base", def_re=r"^flatty_base::utils::floor_mul$"), ["Mul($m, Div($x, $m))"], "floor_mul(x, m) = (x / m) * m"),
    (dict(krate="flatty_base", trait="flatty_base::utils::iter::TypeIter", method="min_size", self_adt="flatty_base::utils::iter::SingleType"),
     ["Add(%s, utils::ceil_mul($pos, %s))" % (MS("T"), A("T"))], "min size of the last item: ceil(pos, ALIGN) + MIN_SIZE"),
    (dict(krate="flatty_base", trait="flatty_base::utils::iter::TypeIter", method="min_size", self_adt="flatty_base::utils::iter::TwoOrMoreTypes"),
     ["iter::TypeIter::min_size($self.1, Add(%s, utils::ceil_mul($pos, %s)))" % (S("T"), A("T"))],
     "running position: pos' = ceil(pos, ALIGN_i) + SIZE_i"),
    (dict(krate="flatty_base", trait="flatty_base::utils::iter::TypeIter", method="align", self_adt="flatty_base::utils::iter::SingleType"),
     [A("T")], "alignment of a one-item list"),
    (dict(krate="flatty_base", trait="flatty_base::utils::iter::TypeIter", method="align", self_adt="flatty_base::utils::iter::TwoOrMoreTypes"),
     ["utils::max(%s, iter::TypeIter::align($self.1))" % A("T")], "alignment of a list = max over items"),
    (dict(krate="flatty_base", def_re=r"^flatty_base::utils::iter::PosIter::<I>::new$"), ["PosIter{0, $iter}"], "positions start at 0"),
    (dict(krate="flatty_base", def_re=r"^flatty_base::utils::iter::PosIter::<I>::pos$"), ["$self.0"], "pos() reports the running position"),
    (dict(krate="flatty_base", def_re=r"^flatty_base::utils::iter::PosIter::<flatty_base::utils::iter::TwoOrMoreTypes<T, I>>::next$"),
     ["PosIter{utils::ceil_mul(Add($self.0, %s), <<I as iter::TypeIter>::Item as FlatBase>::ALIGN), iter::TwoOrMoreTypes::<T, I>::next($self.1)}" % S("T")],
     "next position = ceil(pos + SIZE_i, ALIGN_{i+1})"),
    (dict(krate="flatty_base", trait="flatty_base::utils::iter::FoldSizeIter", method="fold_size", self_re=r"TwoOrMoreTypes"),
     ["iter::FoldSizeIter::fold_size(iter::DataIter::<'a, D, iter::TwoOrMoreTypes<T, I>>::next($self).0, Add(%s, utils::ceil_mul($size, %s)))" % (S("T"), A("T"))],
     "size fold: size' = ceil(size, ALIGN_i) + SIZE_i"),
    (dict(krate="flatty_base", trait="flatty_base::utils::iter::FoldSizeIter", method="fold_size", self_re=r"SingleType"),
     ["Add(FlatBase::size(FlatUnsized::ptr_from_bytes(iter::DataIter::<'a, D, iter::SingleType<T>>::finalize($self))), utils::ceil_mul($size, %s))" % A("T")],
     "size fold, last item: ceil(size, ALIGN) + item.size()"),
    (dict(krate="flatty_base", def_re=r"^flatty_base::utils::iter::DataIter::<'a, D, I>::pos$"), ["iter::PosIter::<I>::pos($self.2)"], "DataIter::pos is the position iterator's"),
    (dict(krate="flatty_base", def_re=r"^flatty_base::utils::iter::DataIter::<'a, D, I>::new_unchecked$"),
     ["DataIter{PhantomData{}, $data, iter::PosIter::<I>::new($iter)}"], "a new DataIter starts at position 0 over the given data"),
    (dict(krate="flatty_base", def_re=r"^flatty_base::utils::mem::slice_ptr_len::<T>$"),
     ["core::ptr::non_null::NonNull::<[T]>::len(core::ptr::non_null::NonNull::<T>::new_unchecked($slice))"], "slice_ptr_len reads the fat-pointer length"),
    (dict(krate="flatty_base", def_re=r"^flatty_base::utils::mem::set_slice_ptr_len::<T>$"),
     ["core::ptr::slice_from_raw_parts_mut($bytes, $len)"], "set_slice_ptr_len keeps the address, replaces the length"),
    (dict(krate="flatty_base", def_re=r"^flatty_base::utils::mem::offset_slice_ptr_start::<T>$"),
     ["core::ptr::slice_from_raw_parts_mut(core::ptr::mut_ptr::<impl *mut T>::offset($slice, $count), (Sub((mem::slice_ptr_len($slice) as isize), $count) as usize))"],
     "offset_slice_ptr_start moves the start by count and shrinks the length by count"),
    (dict(krate="flatty_base", trait="flatty_base::traits::FlatBase", method="size", self_re=r"^T$"), [S("T")], "sized types report their static size"),
    (dict(krate="flatty_base", trait="flatty_base::traits::FlatUnsized", method="ptr_from_bytes", self_re=r"^T$"), ["$bytes"], "a sized view starts at the slice start"),
    (dict(krate="flatty_base", trait="flatty_base::traits::FlatUnsized", method="ptr_to_bytes", self_re=r"^T$"),
     ["core::ptr::slice_from_raw_parts_mut($this, %s)" % S("T")], "bytes of a sized value: SIZE bytes from its address"),
    (dict(krate="flatty_base", trait="flatty_base::traits::FlatDefault", method="default_emplacer", self_re=r"^T$"),
     ["core::default::Default::default()"], "blanket FlatDefault: the default emplacer is Default::default()"),
    # containers
    (dict(krate="flatty_containers", trait="flatty_base::traits::FlatUnsized", method="ptr_from_bytes", self_adt="flatty_containers::vec::FlatVec"),
     ["core::ptr::slice_from_raw_parts_mut($bytes, core::option::Option::<T>::unwrap_or(core::num::<impl usize>::checked_div(utils::floor_mul(Sub(mem::slice_ptr_len($bytes), <fc::vec::FlatVec<T, L> as fc::vec::DataOffset<T, L>>::DATA_OFFSET), <fc::vec::FlatVec<T, L> as FlatBase>::ALIGN), %s), 18446744073709551615))" % S("T")],
     "FlatVec capacity = floor(len - DATA_OFFSET, ALIGN) / SIZE, unbounded for zero-sized elements (view never exceeds the slice)"),
    (dict(krate="flatty_containers", trait="flatty_base::traits::FlatUnsized", method="ptr_to_bytes", self_adt="flatty_containers::vec::FlatVec"),
     ["core::ptr::slice_from_raw_parts_mut($this, utils::ceil_mul(Add(<fc::vec::FlatVec<T, L> as fc::vec::DataOffset<T, L>>::DATA_OFFSET, Mul(%s, mem::slice_ptr_len($this))), <fc::vec::FlatVec<T, L> as FlatBase>::ALIGN))" % S("T")],
     "FlatVec bytes = ceil(DATA_OFFSET + capacity * SIZE, ALIGN): the whole value, so that its own bytes map back to the same capacity"),
    (dict(krate="flatty_containers", trait="flatty_base::traits::FlatUnsized", method="ptr_from_bytes", self_adt="flatty_containers::string::FlatString"),
     ["core::ptr::slice_from_raw_parts_mut($bytes, utils::floor_mul(Sub(mem::slice_ptr_len($bytes), <fc::string::FlatString<L> as fc::string::DataOffset<L>>::DATA_OFFSET), <fc::string::FlatString<L> as FlatBase>::ALIGN))"],
     "FlatString capacity = floor(len - DATA_OFFSET, ALIGN)"),
    (dict(krate="flatty_containers", trait="flatty_base::traits::FlatUnsized", method="ptr_to_bytes", self_adt="flatty_containers::string::FlatString"),
     ["core::ptr::slice_from_raw_parts_mut($this, Add(<fc::string::FlatString<L> as fc::string::DataOffset<L>>::DATA_OFFSET, mem::slice_ptr_len($this)))"],
     "FlatString bytes = DATA_OFFSET + capacity"),
    (dict(krate="flatty_containers", trait="flatty_base::traits::FlatUnsized", method="ptr_from_bytes", self_adt="flatty_containers::flex::FlexVec"),
     ["core::ptr::slice_from_raw_parts_mut($bytes, utils::floor_mul(mem::slice_ptr_len($bytes), <fc::flex::FlexVec<T, L> as FlatBase>::ALIGN))"],
     "FlexVec view = floor(len, ALIGN) bytes"),
    (dict(krate="flatty_containers", trait="flatty_base::traits::FlatUnsized", method="ptr_to_bytes", self_adt="flatty_containers::flex::FlexVec"),
     ["core::ptr::slice_from_raw_parts_mut($this, mem::slice_ptr_len($this))"], "FlexVec bytes = its data"),
]

SIZE_RETURNS = [
    (dict(krate="flatty_containers", trait="flatty_base::traits::FlatBase", method="size", self_adt="flatty_containers::vec::FlatVec"),
     ["utils::ceil_mul(Add(<fc::vec::FlatVec<T, L> as fc::vec::DataOffset<T, L>>::DATA_OFFSET, Mul(%s, stavec::generic::GenericVec::<C, L>::len(<fc::vec::FlatVec<T, L> as core::ops::deref::Deref>::deref($self)))), <fc::vec::FlatVec<T, L> as FlatBase>::ALIGN)" % S("T")],
     "FlatVec::size() = ceil(DATA_OFFSET + SIZE * len, ALIGN)"),
    (dict(krate="flatty_containers", trait="flatty_base::traits::FlatBase", method="size", self_adt="flatty_containers::string::FlatString"),
     ["utils::ceil_mul(Add(<fc::string::FlatString<L> as fc::string::DataOffset<L>>::DATA_OFFSET, stavec::string::GenericString::<C, L>::len(<fc::string::FlatString<L> as core::ops::deref::Deref>::deref($self))), <fc::string::FlatString<L> as FlatBase>::ALIGN)"],
     "FlatString::size() = ceil(DATA_OFFSET + len, ALIGN)"),
]


def table_rules(F, R, table, rule_id):
    n = 0
    for sel, expected, why in table:
        try:
            b = F.one(**sel)
        except AnchorLost as e:
            R.anchor_lost(rule_id, str(sel.get("def_re") or sel.get("method")), str(e))
            continue
        body = Body(b)
        got = the_return(body)
        n += 1
        fn = short(b["id"])
        R.ob(rule_id, fn, "return", got == sorted(expected),
             "%s -- %s" % (why, "matches" if got == sorted(expected) else "found %s, expected %s" % (got, sorted(expected))),
             where=b["span"])
        if len(R.samples) < 6:
            R.samples.append({"rule": rule_id, "function": fn, "normal_form": got, "expected": sorted(expected)})
    return n


def base_formula_rules(F, R):
    n = table_rules(F, R, BASE_RETURNS, "F1.formula")
    R.floor("F1", "library formulas compared", n, len(BASE_RETURNS) - 1)
    selector_rules(F, R)
    gate_rules(F, R)
    dataiter_next_rule(F, R)


def size_formula_rules(F, R):
    table_rules(F, R, SIZE_RETURNS, "F2.size")


def selector_rules(F, R):
    """max / min: on every path the returned parameter is the right one under the branch condition."""
    for name, want_larger in (("max", True), ("min", False)):
        b = F.one(krate="flatty_base", def_re=r"^flatty_base::utils::%s$" % name)
        body = Body(b)
        ok = True
        npaths = 0
        for p in body.paths(0):
            evs = events(body, p)
            cond = None
            for ev in evs:
                if ev.kind == "branch":
                    bt = bool_taken(ev)
                    if bt is not None:
                        cond = norm_cmp(ev.a, bt)
            ret = None
            for ev in evs:
                if ev.kind == "assign" and ev.a["v"] == 0 and not ev.a["p"]:
                    ret = strip(body.expr_of_rvalue(ev.b))
            npaths += 1
            if not cond or not ret or ret[0] != "param":
                ok = False
                continue
            op, l, r_ = cond[0], strip(cond[1]), strip(cond[2])
            if op not in ("Lt", "Le") or l[0] != "param" or r_[0] != "param" or l[1] == r_[1]:
                ok = False
                continue
            # l <(=) r holds on this path
            larger, smaller = r_[1], l[1]
            if (ret[1] == larger) != want_larger and not (op == "Le" and False):
                ok = False
        R.ob("F1.selector", "utils::" + name, "paths", ok and npaths == 2,
             "%s(a, b) returns the %s argument on both paths" % (name, "larger" if want_larger else "smaller"), where=b["span"])


def gate_rules(F, R):
    """check_align_and_min_size (free fn and TypeIter method): BadAlign iff misaligned, else InsufficientSize iff len < MIN_SIZE, else Ok."""
    for sel, align_e, min_e, fn in (
        (dict(krate="flatty_base", def_re=r"^flatty_base::utils::mem::check_align_and_min_size::<T>$"), A("T"), MS("T"), "mem::check_align_and_min_size"),
        (dict(krate="flatty_base", def_re=r"^<Self as flatty_base::utils::iter::TypeIter>::check_align_and_min_size$"),
         "iter::TypeIter::align($self)", "iter::TypeIter::min_size($self, 0)", "iter::TypeIter::check_align_and_min_size"),
    ):
        b = F.one(**sel)
        body = Body(b)
        outcomes = {}
        for p in body.paths(0):
            evs = events(body, p)
            conds = []
            for ev in evs:
                if ev.kind == "branch":
                    bt = bool_taken(ev)
                    if bt is not None:
                        n = norm_cmp(ev.a, bt)
                        if n:
                            conds.append((n[0], canon(n[1]), canon(n[2])))
            ret = None
            for ev in evs:
                if ev.kind == "assign" and ev.a["v"] == 0 and not ev.a["p"]:
                    ret = canon(body.expr_of_rvalue(ev.b))
            outcomes[ret] = conds
        bytes_p = "$bytes" if "mem::" in fn else "$data"
        al = "core::ptr::const_ptr::<impl *const T>::align_offset(core::slice::<impl [T]>::as_ptr(%s), %s)" % (bytes_p, align_e)
        ln = "core::slice::<impl [T]>::len(%s)" % bytes_p
        want = {
            "Err{Error{BadAlign{}, 0}}": [("Ne", al, "0")],
            "Err{Error{InsufficientSize{}, 0}}": [("Eq", al, "0"), ("Lt", ln, min_e)],
            "Ok{tuple{}}": [("Eq", al, "0"), ("Le", min_e, ln)],
        }

        def normc(cs):
            out = []
            for op, a, c in cs:
                if op in ("Eq", "Ne") and a == "0":
                    a, c = c, a
                out.append((op, a, c))
            return out
        got = {k: normc(v) for k, v in outcomes.items()}
        R.ob("G1.gate-shape", fn, "outcomes", got == want,
             "%s: BadAlign iff align_offset != 0; else InsufficientSize iff len < MIN_SIZE; else Ok%s" % (
                 fn, "" if got == want else " -- found %s" % got), where=b["span"])
    # the gate is applied before the unchecked step: validate / emplace / DataIter::new
    for sel, gate, unchecked, fn in (
        (dict(krate="flatty_base", def_re=r"^flatty_base::traits::FlatValidate::validate$"), "check_align_and_min_size", "FlatValidate::validate_unchecked", "FlatValidate::validate"),
        (dict(krate="flatty_base", def_re=r"^flatty_base::emplacer::Emplacer::emplace$"), "check_align_and_min_size", "Emplacer::emplace_unchecked", "Emplacer::emplace"),
        (dict(krate="flatty_base", def_re=r"^flatty_base::utils::iter::DataIter::<'a, D, I>::new$"), "TypeIter::check_align_and_min_size", "new_unchecked", "DataIter::new"),
        (dict(krate="flatty_base", def_re=r"^flatty_base::traits::FlatValidate::from_bytes$"), "FlatValidate::validate", "FlatUnsized::from_bytes_unchecked", "FlatValidate::from_bytes"),
        (dict(krate="flatty_base", def_re=r"^flatty_base::traits::FlatValidate::from_mut_bytes$"), "FlatValidate::validate", "FlatUnsized::from_mut_bytes_unchecked", "FlatValidate::from_mut_bytes"),
        (dict(krate="flatty_base", def_re=r"^flatty_base::traits::FlatUnsized::new_in_place$"), "Emplacer::emplace", "FlatUnsized::from_mut_bytes_unchecked", "FlatUnsized::new_in_place"),
    ):
        b = F.one(**sel)
        body = Body(b)
        ok, txt = gated_call(body, gate, unchecked)
        R.ob("G1.gate-dominates", fn, unchecked.split("::")[-1], ok, "%s: %s" % (fn, txt), where=b["span"])


def same_object(a, b):
    return canon(a) == canon(b)


def gated_call(body, gate, unchecked):
    """Every call to `unchecked` is dominated by the Ok/Continue edge of a `gate` call on the same slice/self type."""
    gs = find_calls(body, gate)
    us = find_calls(body, unchecked)
    if len(gs) != 1 or not us:
        return False, "expected one gate call (%s) and an unchecked call (%s): found %d / %d" % (gate, unchecked, len(gs), len(us))
    gbb, gt = gs[0]
    ge = body.expr_of_call(gt, 0, gbb)
    # success edge: discr switch on the gate result (directly or via Try::branch)
    ok_edges = []
    for sbb, st in body.switches():
        cond = body.expr_of_operand(st["switch"])
        if cond[0] != "discr":
            continue
        x = strip(cond[1])
        via_try = False
        if x[0] == "call" and call_matches(x, "Try::branch"):
            x = strip(x[3][0])
            via_try = True
        if x[0] == "call" and x[5] == gbb:
            tv = {int(v): tb for v, tb in st["targets"]}
            if 0 in tv:
                ok_edges.append((sbb, tv[0]))
            elif 1 in tv and body.term(st["otherwise"]) != "unreachable":
                ok_edges.append((sbb, st["otherwise"]))
    if not ok_edges:
        return False, "the gate's result is not tested"
    for ubb, ut in us:
        if not any(body.edge_dominates(e, ubb) for e in ok_edges):
            return False, "call to %s is not dominated by the success edge of %s" % (unchecked, gate)
        ue = body.expr_of_call(ut, 0, ubb)
        # same byte slice: last slice-typed argument of both
        ga = [canon(a) for a in ge[3]]
        ua = [canon(a) for a in ue[3]]
        shared = [a for a in ua if a in ga or any(a in g for g in ga)]
        if not shared:
            return False, "the gated call works on different bytes than the gate (%s vs %s)" % (ua, ga)
        # same Self type for the trait-dispatched pair
        if "check_align_and_min_size" in gate and "TypeIter" not in gate:
            target = ue[2][1] if call_matches(ue, "Emplacer::emplace_unchecked") and len(ue[2]) > 1 else (ue[2][0] if ue[2] else None)
            if not ge[2] or ge[2][0] != target:
                return False, "gate is instantiated for %s but the unchecked call targets %s" % (ge[2], target)
    return True, "%s is called only on the success edge of %s on the same bytes" % (unchecked, gate)


def dataiter_next_rule(F, R):
    b = F.one(krate="flatty_base", def_re=r"^flatty_base::utils::iter::DataIter::<'a, D, flatty_base::utils::iter::TwoOrMoreTypes<T, I>>::next$")
    body = Body(b)
    args = call_arg(body, ("Data::split",), 1)
    want = "Sub(iter::PosIter::<I>::pos(iter::PosIter::<iter::TwoOrMoreTypes<T, I>>::next($self.2)), iter::PosIter::<I>::pos($self.2))"
    R.ob("F3.split-delta", "iter::DataIter::next", "split-arg", args == [want],
         "DataIter::next splits the data at next_pos - prev_pos of the shared position iterator%s" % ("" if args == [want] else " -- found %s" % args),
         where=b["span"])
    rets = the_return(body)
    ok = len(rets) == 1 and ".1, iter::PosIter::<iter::TwoOrMoreTypes<T, I>>::next($self.2)}" in rets[0] and "iter::Data::value(iter::Data::split(" in rets[0] and ").0)" in rets[0]
    R.ob("F3.next-parts", "iter::DataIter::next", "return", ok,
         "DataIter::next hands out the first part as the item and continues on the second part with the advanced position iterator", where=b["span"])


RESID = "<core::result::Result<T, F> as core::ops::try_trait::FromResidual<core::result::Result<core::convert::Infallible, E>>>::from_residual((<core::result::Result<T, E> as core::ops::try_trait::Try>::branch(%s) as Break).0)"

TRAIT_RETURNS = [
    (dict(krate="flatty_base", def_re=r"^flatty_base::traits::FlatUnsized::from_bytes_unchecked$"), ["FlatUnsized::ptr_from_bytes($bytes)"],
     "from_bytes_unchecked is the view made by ptr_from_bytes over the same bytes"),
    (dict(krate="flatty_base", def_re=r"^flatty_base::traits::FlatUnsized::from_mut_bytes_unchecked$"), ["FlatUnsized::ptr_from_bytes($bytes)"],
     "from_mut_bytes_unchecked is the view made by ptr_from_bytes over the same bytes"),
    (dict(krate="flatty_base", def_re=r"^flatty_base::traits::FlatUnsized::as_bytes$"), ["FlatUnsized::ptr_to_bytes($self)"], "as_bytes = ptr_to_bytes(self)"),
    (dict(krate="flatty_base", def_re=r"^flatty_base::traits::FlatUnsized::as_mut_bytes$"), ["FlatUnsized::ptr_to_bytes($self)"], "as_mut_bytes = ptr_to_bytes(self)"),
    (dict(krate="flatty_base", def_re=r"^flatty_base::traits::FlatUnsized::new_in_place$"),
     [RESID % "flatty_base::emplacer::Emplacer::emplace($emplacer, $bytes)", "Ok{FlatUnsized::from_mut_bytes_unchecked($bytes)}"],
     "new_in_place: checked emplace on the given bytes, its error is returned, else the view of the same bytes"),
    (dict(krate="flatty_base", def_re=r"^flatty_base::traits::FlatUnsized::assign_in_place$"),
     [RESID % "flatty_base::emplacer::Emplacer::emplace_unchecked($emplacer, FlatUnsized::as_mut_bytes($self))", "Ok{FlatUnsized::from_mut_bytes_unchecked(FlatUnsized::as_mut_bytes($self))}"],
     "assign_in_place: emplace over the value's own bytes, its error is returned with no further store, else the view of the same bytes"),
    (dict(krate="flatty_base", def_re=r"^flatty_base::traits::FlatValidate::validate_ptr$"), ["FlatValidate::validate_unchecked(FlatUnsized::ptr_to_bytes($this))"],
     "validate_ptr validates the pointee's own bytes"),
    (dict(krate="flatty_base", def_re=r"^flatty_base::traits::FlatDefault::default_in_place$"),
     ["FlatUnsized::new_in_place($bytes, flatty_base::traits::FlatDefault::default_emplacer())"], "default_in_place = new_in_place(bytes, default_emplacer())"),
    (dict(krate="flatty_base", def_re=r"^<T as flatty_base::emplacer::Emplacer<T>>::emplace_unchecked$"), ["Ok{FlatUnsized::ptr_from_bytes($bytes)}"],
     "a sized value is its own emplacer: result is the slot start"),
    (dict(krate="flatty_base", def_re=r"TwoOrMoreTypes<T, I>> as flatty_base::utils::iter::ValidateIter>::validate_all$"),
     [RESID % "core::result::Result::<T, E>::map_err(FlatValidate::validate_unchecked(iter::DataIter::<'a, D, I>::value(<iter::DataIter<'a, D, I> as core::clone::Clone>::clone($self))), closure{$self})",
      "iter::ValidateIter::validate_all(iter::DataIter::<'a, D, iter::TwoOrMoreTypes<T, I>>::next($self).0)"],
     "validate_all: validate the current item on the current slice (error shifted), then the rest of the list"),
    (dict(krate="flatty_base", def_re=r"SingleType<T>> as flatty_base::utils::iter::ValidateIter>::validate_all$"),
     [RESID % "core::result::Result::<T, E>::map_err(FlatValidate::validate_unchecked(iter::DataIter::<'a, D, I>::value(<iter::DataIter<'a, D, I> as core::clone::Clone>::clone($self))), closure{$self})",
      "Ok{tuple{}}"],
     "validate_all (last item): validate it on the remaining slice (error shifted)"),
    (dict(krate="flatty_base", def_re=r"ValidateIter>::validate_all::\{closure#0\}$", self_re=None), None, None),
    (dict(krate="flatty_containers", def_re=r"^flatty_containers::wrap::FlatWrap::<F, P>::from_wrapped_bytes$"),
     [RESID % "FlatValidate::validate(core::convert::AsRef::as_ref($pointer))", "Ok{fc::wrap::FlatWrap::<F, P>::from_wrapped_bytes_unchecked($pointer)}"],
     "FlatWrap::from_wrapped_bytes wraps the pointer only after F::validate succeeded on its bytes"),
    (dict(krate="flatty_containers", def_re=r"^flatty_containers::wrap::FlatWrap::<F, P>::new_in_place$"),
     [RESID % "FlatUnsized::new_in_place(core::convert::AsMut::as_mut($pointer), $emplacer)", "Ok{fc::wrap::FlatWrap::<F, P>::from_wrapped_bytes_unchecked($pointer)}"],
     "FlatWrap::new_in_place wraps the pointer only after F::new_in_place succeeded on its bytes"),
    (dict(krate="flatty_containers", def_re=r"^flatty_containers::wrap::FlatWrap::<F, P>::default_in_place$"),
     ["fc::wrap::FlatWrap::<F, P>::new_in_place($pointer, flatty_base::traits::FlatDefault::default_emplacer())"], "FlatWrap::default_in_place = new_in_place(pointer, default_emplacer())"),
    (dict(krate="flatty_containers", def_re=r"^<flatty_containers::wrap::FlatWrap<F, P> as core::ops::deref::Deref>::deref$"),
     ["FlatUnsized::from_bytes_unchecked(core::convert::AsRef::as_ref($self.0))"], "FlatWrap derefs to the view of its own pointer's bytes"),
    (dict(krate="flatty_containers", def_re=r"^<flatty_containers::wrap::FlatWrap<F, P> as core::ops::deref::DerefMut>::deref_mut$"),
     ["FlatUnsized::from_mut_bytes_unchecked(core::convert::AsMut::as_mut($self.0))"], "FlatWrap derefs mutably to the view of its own pointer's bytes"),
    (dict(krate="flatty_containers", def_re=r"^<flatty_containers::vec::FlatVec<T, L> as core::ops::deref::Deref>::deref$"), ["$self.0"], "FlatVec derefs to its inner vector and nothing else"),
    (dict(krate="flatty_containers", def_re=r"^<flatty_containers::vec::FlatVec<T, L> as core::ops::deref::DerefMut>::deref_mut$"), ["$self.0"], "FlatVec derefs to its inner vector and nothing else"),
    (dict(krate="flatty_containers", def_re=r"^<flatty_containers::string::FlatString<L> as core::ops::deref::Deref>::deref$"), ["$self.0"], "FlatString derefs to its inner string"),
    (dict(krate="flatty_containers", def_re=r"^<flatty_containers::string::FlatString<L> as core::ops::deref::DerefMut>::deref_mut$"), ["$self.0"], "FlatString derefs to its inner string"),
]


def trait_method_rules(F, R):
    tab = [t for t in TRAIT_RETURNS if t[1] is not None]
    n = table_rules(F, R, tab, "F7.method")
    R.floor("F7", "provided-method formulas compared", n, len(tab) - 1)
    # no other effects: the exact calls of the in-place entry points
    CALLS = {
        r"^flatty_base::traits::FlatUnsized::assign_in_place$": [
            "FlatUnsized::as_mut_bytes($self)",
            "flatty_base::emplacer::Emplacer::emplace_unchecked($emplacer, FlatUnsized::as_mut_bytes($self))",
            "FlatUnsized::from_mut_bytes_unchecked(FlatUnsized::as_mut_bytes($self))"],
        r"^flatty_base::traits::FlatUnsized::new_in_place$": [
            "flatty_base::emplacer::Emplacer::emplace($emplacer, $bytes)",
            "FlatUnsized::from_mut_bytes_unchecked($bytes)"],
        r"^flatty_base::traits::FlatDefault::default_in_place$": [
            "flatty_base::traits::FlatDefault::default_emplacer()",
            "FlatUnsized::new_in_place($bytes, flatty_base::traits::FlatDefault::default_emplacer())"],
        r"^flatty_base::emplacer::Emplacer::emplace$": [
            "mem::check_align_and_min_size($bytes)",
            "flatty_base::emplacer::Emplacer::emplace_unchecked($self, $bytes)"],
    }
    for dre, want in CALLS.items():
        b = F.one(krate="flatty_base", def_re=dre)
        body = Body(b)
        got = [canon(body.expr_of_call(t, 0, bb)) for bb, t in body.calls()
               if not call_matches(body.expr_of_call(t, 0, bb), "Try::branch", "from_residual")]
        R.ob("F7.no-other-effects", short(b["def"]), "calls", got == want,
             "%s performs exactly its documented steps and nothing else%s" % (short(b["def"]), "" if got == want else " -- found %s" % got), where=b["span"])
    # closures of validate_all shift by the walker position
    cl = [b for b in F.poly(krate="flatty_base", def_re=r"ValidateIter>::validate_all::\{closure#0\}$")]
    want = ["flatty_base::error::Error::offset($e, iter::DataIter::<'a, D, I>::pos($1.0))"]
    ok = len(cl) == 2 and all(the_return(Body(c)) == want for c in cl)
    R.ob("E1.err-offset", "iter::ValidateIter::validate_all", "field", ok,
         "validate_all: a field's error is shifted by the walker's position of that field (both impls)%s" % ("" if ok else " -- found %s" % [the_return(Body(c)) for c in cl]),
         where="base/src/utils/iter.rs")
    # sized emplacer writes the whole value at the slot start
    b = F.one(krate="flatty_base", def_re=r"^<T as flatty_base::emplacer::Emplacer<T>>::emplace_unchecked$")
    body = Body(b)
    calls = [canon(body.expr_of_call(t, 0, bb)) for bb, t in body.calls()]
    want = ["FlatUnsized::ptr_from_bytes($bytes)", "core::ptr::mut_ptr::<impl *mut T>::write(FlatUnsized::ptr_from_bytes($bytes), $self)"]
    R.ob("F7.sized-emplacer", "<T as Emplacer<T>>::emplace_unchecked", "ptr.write", calls == want,
         "a sized value is written whole with ptr.write at the start of its slot%s" % ("" if calls == want else " -- found %s" % calls), where=b["span"])
    # who may call from_wrapped_bytes_unchecked / Error::offset semantics
    callers = set()
    for bj in F.poly(krate="flatty_containers"):
        bd = Body(bj)
        if find_calls(bd, "FlatWrap::<F, P>::from_wrapped_bytes_unchecked"):
            callers.add(bj["def"])
    exp = {"flatty_containers::wrap::FlatWrap::<F, P>::from_wrapped_bytes", "flatty_containers::wrap::FlatWrap::<F, P>::new_in_place"}
    R.ob("F7.wrap-callers", "flatty_containers::wrap", "unchecked-ctor", callers == exp,
         "from_wrapped_bytes_unchecked is called only after a successful validate / new_in_place (found %s)" % sorted(c.split("::")[-1] for c in callers),
         where="containers/src/wrap.rs")
    b = F.one(krate="flatty_base", def_re=r"^flatty_base::error::Error::offset$")
    body = Body(b)
    st = [(canon(body.expr_of_place(s["l"])), canon(body.expr_of_rvalue(s["r"]))) for bb, i, s in body.assigns() if s["l"]["p"] and s["l"]["v"] == 1]
    R.ob("E1.offset-adds", "Error::offset", "pos+=offset", st == [("$self.1", "Add($offset, $self.1)")] and the_return(body) == ["$self"],
         "Error::offset adds the offset to pos and keeps the kind%s" % ("" if st == [("$self.1", "Add($offset, $self.1)")] else " -- found %s" % st), where=b["span"])
