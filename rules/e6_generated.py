"""F6 + generated-code formulas: every walker the #[flat] macro generates for a corpus type uses the
declared field list of that type/variant (oracle: the shape manifest written by the corpus generator, not the macro),
in order, over the right bytes; tag <-> variant agreement; size()/ptr_*_bytes formulas; default emplacers."""
import re
from facts import AnchorLost
from mir import Body, strip
from paths import find_calls, call_matches, events, bool_taken, norm_cmp
from e5_formulas import canon, the_return, short

PATH_RE = re.compile(r"\b(?:[a-z_][a-z0-9_]*::)+")


def strip_paths(s):
    return add_default_len(PATH_RE.sub("", s))


def add_default_len(s):
    """The compiler's printer elides defaulted generic arguments: FlatVec<T> = FlatVec<T, usize>, FlatString = FlatString<usize>."""
    out = []
    i = 0
    while i < len(s):
        m = re.match(r"(FlatVec|FlexVec)<", s[i:])
        if m:
            j = i + len(m.group(0))
            depth, k = 1, j
            commas = 0
            while k < len(s) and depth:
                if s[k] in "<[(":
                    depth += 1
                elif s[k] in ">])":
                    depth -= 1
                elif s[k] == "," and depth == 1:
                    commas += 1
                k += 1
            inner = add_default_len(s[j:k - 1])
            if commas == 0:
                inner += ", usize"
            out.append(m.group(1) + "<" + inner + ">")
            i = k
            continue
        m = re.match(r"FlatString(?!<)", s[i:])
        if m:
            out.append("FlatString<usize>")
            i += len("FlatString")
            continue
        out.append(s[i])
        i += 1
    return "".join(out)


def split_generics(s):
    """'A<B, C<D>>' -> ('A', ['B', 'C<D>'])"""
    i = s.find("<")
    if i < 0:
        return s, []
    head = s[:i]
    inner = s[i + 1:s.rfind(">")]
    out, depth, cur = [], 0, ""
    for ch in inner:
        if ch in "<[(":
            depth += 1
        elif ch in ">])":
            depth -= 1
        if ch == "," and depth == 0:
            out.append(cur.strip())
            cur = ""
        else:
            cur += ch
    if cur.strip():
        out.append(cur.strip())
    return head, out


def typelist(s):
    """'..TwoOrMoreTypes<A, ..SingleType<B>>' -> ['A', 'B'] (paths stripped)."""
    s = strip_paths(s)
    out = []
    while True:
        head, args = split_generics(s)
        if head == "TwoOrMoreTypes" and len(args) == 2:
            out.append(args[0])
            s = args[1]
        elif head == "SingleType" and len(args) == 1:
            out.append(args[0])
            return out
        else:
            return None


def walker_calls(body):
    """(bb, kind, typelist, data canon, data type) for every DataIter::new / new_unchecked call."""
    out = []
    for bb, t in body.calls():
        c = t["call"]
        if "def" not in c:
            continue
        d = c["def"]
        if d.endswith("DataIter::<'a, D, I>::new_unchecked") or d.endswith("DataIter::<'a, D, I>::new"):
            e = body.expr_of_call(t, 0, bb)
            args = c["args"]
            tl = typelist(args[-1]) if args else None
            out.append({"bb": bb, "kind": "new" if d.endswith("::new") else "new_unchecked", "types": tl,
                        "data": canon(e[3][0]), "data_expr": e[3][0], "dty": strip_paths(args[1]) if len(args) > 1 else None})
    return out


def declared_discrs(d):
    """tag value of variant i as declared in the source (an omitted discriminant continues +1, like rustc's)"""
    out, nxt = [], 0
    for v in d["variants"]:
        if v.get("discr") is not None:
            nxt = v["discr"]
        out.append(nxt)
        nxt += 1
    return out


def tag_switches(body, pred, discrs=None):
    """switches on discr(X) with pred(strip(X)) true -> list of (bb, {variant index: target}, otherwise).
    With `discrs` (declared tag values by variant position) the switch values are translated to variant positions; a switch value that is
    no declared discriminant is kept under the key ("undeclared", value) so that the caller's list comparison fails."""
    out = []
    for sbb, st in body.switches():
        cond = body.expr_of_operand(st["switch"])
        if cond[0] == "discr" and pred(strip(cond[1])):
            m = {}
            for v, tb in st["targets"]:
                v = int(v)
                if discrs is None:
                    m[v] = tb
                elif v in discrs:
                    m[discrs.index(v)] = tb
                else:
                    m[("undeclared", v)] = tb
            out.append((sbb, m, st["otherwise"]))
    return out


def region(body, sbb, target):
    """blocks only reachable through edge sbb->target (dominated by the edge)."""
    return {b for b in body.reachable_from(target) if body.edge_dominates((sbb, target), b)}


def corpus_body(F, self_name, trait=None, method=None, name=None, self_adt=None):
    m = F.manifest["types"].get(self_name) or {}
    if (m.get("def") or {}).get("generic") and trait and method:
        # an instance of a generic definition: its monomorphic body (constants evaluated, callees resolved) as reached from the corpus roots
        pre = "<flatty_corpus::%s as %s>::%s" % (m["rust"], trait, method)
        rs = [b for b in F.mono.values() if b["id"] == pre and b["defkind"] != "Closure"]
        if len(rs) != 1:
            raise AnchorLost("generated %s::%s for the generic instance %s: expected 1 monomorphic body, found %d" % (trait, method, self_name, len(rs)))
        return rs[0]
    kw = dict(krate="flatty_corpus")
    if trait:
        kw["trait"] = trait
    if method:
        kw["method"] = method
    rs = [b for b in F.poly(**kw) if b.get("impl") and (
        (self_adt and b["impl"].get("self_adt") == "flatty_corpus::" + self_adt) or
        (not self_adt and b["impl"].get("self") == "flatty_corpus::" + self_name))]
    if name:
        rs = [b for b in rs if b["name"] == name]
    rs = [b for b in rs if b["defkind"] != "Closure"]
    if len(rs) != 1:
        raise AnchorLost("generated %s::%s for %s: expected 1 body, found %d" % (trait, method or name, self_name, len(rs)))
    return rs[0]


def base_name(nm, d):
    """name the macro derives helper types from (<Name>Tag, <Name>Init ...): the generic definition's for an instance"""
    return d.get("generic") or nm


def const_path(nm, m, d):
    """path under which an inherent constant of the type is printed: `flatty_corpus::Name` or `flatty_corpus::Name::<args>`"""
    if d.get("generic"):
        g, args = m["rust"].split("<", 1)
        return "flatty_corpus::%s::<%s" % (g, args)
    return "flatty_corpus::" + nm


def closures_in(F, b):
    src = F.mono.values() if b.get("mono") else F.poly(krate="flatty_corpus")
    return [bj for bj in src if bj["id"].startswith(b["id"] + "::{closure")]


def is_tag_of_bytes(x):
    return x[0] == "call" and call_matches(x, "FlatUnsized::from_bytes_unchecked")


def is_self_tag(x):
    return x[0] == "field" and x[2] == 0 and strip(x[1])[0] == "param"


def is_self(x):
    return x[0] == "param" and x[1] == 1


def payload_range(fn, do, a):
    return "core::slice::<impl [T]>::%s($__flatty_bytes, Range{%d, Add(%d, utils::floor_mul(Sub(core::slice::<impl [T]>::len($__flatty_bytes), %d), %d))})" % (
        fn, do, do, do, a)


def decl_lists(d):
    if d["kind"] == "struct":
        return [[f["fty"] for f in d["fields"]]]
    return [[f["fty"] for f in v["fields"]] for v in d["variants"]]


def generated_rules(F, R, which):
    """which: subset of {'validate','size','access','init','ptr','default'}"""
    man = F.manifest["types"]
    n = 0
    for nm, m in sorted(man.items()):
        d = m.get("def")
        if not d:
            continue
        ty = F.tymarks.get("__ty_" + nm)
        cs = F.consts.get(ty, {})
        n += 1
        try:
            if d.get("generic"):
                # instances of generic definitions: the shape rules run on the monomorphic bodies reached from the instance's roots
                # (validator, size, view pointers); accessors / initialisers / default are pinned on the non-generic shapes only
                if "validate" in which:
                    validate_rules(F, R, nm, d, m, cs)
                if "size" in which:
                    size_rules(F, R, nm, d, m, cs)
                if "ptr" in which and not d["sized"]:
                    ptr_rules(F, R, nm, d, m, cs)
                continue
            if "validate" in which:
                validate_rules(F, R, nm, d, m, cs)
            if "size" in which:
                size_rules(F, R, nm, d, m, cs)
            if "access" in which and d["kind"] == "enum" and not d["sized"]:
                access_rules(F, R, nm, d, m, cs)
            if "init" in which and not d["sized"]:
                init_rules(F, R, nm, d, m, cs)
            if "ptr" in which and not d["sized"]:
                ptr_rules(F, R, nm, d, m, cs)
            if "default" in which and d["default"]:
                default_rules(F, R, nm, d, m, cs)
        except AnchorLost as e:
            R.anchor_lost("F6", nm, str(e))
    R.floor("F6", "generated definitions analysed", n, 30)


# ------------------------------------------------------------------ validate

def validate_rules(F, R, nm, d, m, cs):
    b = corpus_body(F, nm, trait="flatty_base::traits::FlatValidate", method="validate_unchecked")
    body = Body(b)
    ws = walker_calls(body)
    lists = decl_lists(d)
    fn = nm + "::validate_unchecked"
    if d["kind"] == "struct":
        want = lists[0]
        if not want:
            R.ob("F6.validate-list", fn, "fields", not ws, "%s has no fields: nothing to walk" % nm, nontrivial=False, where=b["span"])
            return
        ok = len(ws) == 1 and ws[0]["types"] == want and ws[0]["kind"] == "new_unchecked"
        R.ob("F6.validate-list", fn, "fields", ok,
             "%s: the validator walks the declared field list %s in order%s" % (nm, want, "" if ok else " -- found %s" % [w["types"] for w in ws]),
             where=b["span"])
        va = find_calls(body, "ValidateIter::validate_all")
        ok2 = len(va) == 1 and len(ws) == 1
        if ok2:
            e = body.expr_of_call(va[0][1], 0, va[0][0])
            recv = strip(e[3][0])
            ok2 = recv[0] == "call" and recv[5] == ws[0]["bb"] and the_return(body) == [canon(e)]
        R.ob("F6.validate-all", fn, "validate_all", ok2, "%s: every field of the list is validated (validate_all on that walker is the result)" % nm, where=b["span"])
        # range of bytes walked: V5 (struct)
        a = cs.get("ALIGN")
        want_data = "$__flatty_bytes" if d["sized"] else \
            "core::slice::<impl [T]>::get_unchecked($__flatty_bytes, RangeTo{utils::floor_mul(core::slice::<impl [T]>::len($__flatty_bytes), %d)})" % a
        R.ob("V5.validated-range", fn, "struct-bytes", len(ws) == 1 and ws[0]["data"] == want_data,
             "%s: the validator walks exactly the bytes the view covers: bytes[..floor_mul(len, ALIGN=%s)]%s" % (
                 nm, a, "" if len(ws) == 1 and ws[0]["data"] == want_data else " -- found %s" % [w["data"] for w in ws]), where=b["span"])
        return
    # enums
    tagsz = {"u8": 1, "u16": 2, "u32": 4}[d["tag_eff"]]
    if d["c_like"]:
        clike_tag_rule(F, R, body, b, fn, nm, len(d["variants"]), d)
        return
    do = cs.get("DATA_OFFSET")
    tagname = "flatty_corpus::%sTag" % base_name(nm, d)
    tv = find_calls(body, "FlatValidate::validate_unchecked")
    tv = [(bb, t) for bb, t in tv if t["call"]["args"] and t["call"]["args"][0] == tagname]
    fb = [(bb, t) for bb, t in find_calls(body, "FlatUnsized::from_bytes_unchecked") if t["call"]["args"][0] == tagname]
    ok = len(tv) == 1 and len(fb) == 1
    if ok:
        # the tag is read as an enum only after its validation succeeded (Continue edge of `?`)
        ok = False
        for sbb, st in body.switches():
            cond = body.expr_of_operand(st["switch"])
            if cond[0] == "discr":
                x = strip(cond[1])
                if x[0] == "call" and call_matches(x, "Try::branch") and strip(x[3][0])[0] == "call" and strip(x[3][0])[5] == tv[0][0]:
                    tvm = {int(v): tb for v, tb in st["targets"]}
                    if 0 in tvm and body.edge_dominates((sbb, tvm[0]), fb[0][0]):
                        ok = True
        e1 = body.expr_of_call(tv[0][1], 0, tv[0][0])
        e2 = body.expr_of_call(fb[0][1], 0, fb[0][0])
        ok = ok and canon(e1[3][0]) == "$__flatty_bytes" and canon(e2[3][0]) == "$__flatty_bytes"
    R.ob("V2.tag-validated-first", fn, "tag", ok, "%s: the raw tag at offset 0 is validated before it is read as an enum" % nm, where=b["span"])
    sw = tag_switches(body, is_tag_of_bytes, declared_discrs(d))
    if len(sw) != 1:
        R.anchor_lost("F6.validate-list", fn, "expected one match on the tag, found %d" % len(sw))
        return
    sbb, tvm, other = sw[0]
    okl = not any(isinstance(k, tuple) for k in tvm)
    found = []
    arm_regions = {}
    for i, want in enumerate(lists):
        if i not in tvm:
            # last variant may be the otherwise edge
            tgt = other if len([k for k in range(len(lists)) if k not in tvm]) == 1 else None
        else:
            tgt = tvm[i]
        if tgt is None:
            okl = False
            continue
        reg = region(body, sbb, tgt)
        arm_regions[i] = (tgt, reg)
        w = [x for x in ws if x["bb"] in reg]
        found.append([x["types"] for x in w])
        if not want:
            if w:
                okl = False
        else:
            if len(w) != 1 or w[0]["types"] != want or w[0]["kind"] != "new_unchecked":
                okl = False
            else:
                va = [c for c in find_calls(body, "ValidateIter::validate_all") if c[0] in reg]
                if len(va) != 1 or strip(body.expr_of_call(va[0][1], 0, va[0][0])[3][0])[5] != w[0]["bb"]:
                    okl = False
    R.ob("F6.validate-list", fn, "variants", okl,
         "%s: for tag i the validator walks the declared field list of variant i, in order (%s)%s" % (
             nm, lists, "" if okl else " -- found %s" % found), where=b["span"])
    # data slice: bytes[DATA_OFFSET..]
    datas = sorted({w["data"] for w in ws})
    a = cs.get("ALIGN")
    if d["sized"]:
        want_data = "core::slice::<impl [T]>::get_unchecked($__flatty_bytes, RangeFrom{%d})" % do
    else:
        want_data = payload_range("get_unchecked", do, a)
    R.ob("F6.validate-data", fn, "payload-start", all(x == want_data for x in datas),
         "%s: variant payloads are walked from DATA_OFFSET (%s) of the given bytes%s" % (nm, do, "" if all(x == want_data for x in datas) else " -- found %s" % datas),
         where=b["span"])
    # V5: validated range equals the view range floor_mul(len - DATA_OFFSET, ALIGN)
    if not d["sized"]:
        R.ob("V5.validated-range", fn, "enum-payload-range", all(x == want_data for x in datas),
             "%s: the validator walks exactly the payload the view covers: bytes[DATA_OFFSET..DATA_OFFSET + floor_mul(len - DATA_OFFSET, ALIGN=%s)]%s" % (
                 nm, a, "" if all(x == want_data for x in datas) else " -- found %s" % datas), where=b["span"])
        # per-variant size gate: in the arm of variant i, before its fields are walked, len(payload) < DATA_MIN_SIZES[i] (the POSITION of the
        # variant, not its tag value) returns InsufficientSize at DATA_OFFSET; the walk is on the false edge
        gate_ok = bool(arm_regions) and len(arm_regions) == len(lists)
        gate_why = ""
        for i, (tgt, reg) in sorted(arm_regions.items()):
            found_gate = False
            for sb2, st in body.switches():
                if sb2 not in reg:
                    continue
                cond = body.expr_of_operand(st["switch"])
                if cond[0] != "bin":
                    continue
                n_ = norm_cmp(cond, True)
                if not (n_ and n_[0] == "Lt"):
                    continue
                l, r_ = canon(n_[1]), canon(n_[2])
                if l == "core::slice::<impl [T]>::len(%s)" % want_data and r_ == "%s::DATA_MIN_SIZES[%d]" % (const_path(nm, m, d), i):
                    ft = [b_ for v, b_ in st["targets"] if int(v) == 0]
                    if not ft:
                        continue
                    errs = [canon(body.expr_of_rvalue(s_["r"])) for bb_ in body.reachable_from(st["otherwise"], avoid=[ft[0]])
                            for s_ in body.stmts(bb_) if s_["l"] and s_["l"]["v"] == 0 and not s_["l"]["p"]]
                    walkers = [x for x in ws if x["bb"] in reg]
                    dominated = all(body.edge_dominates((sb2, ft[0]), x["bb"]) for x in walkers)
                    if errs == ["Err{Error{InsufficientSize{}, %d}}" % do] and dominated:
                        found_gate = True
            if not found_gate:
                gate_ok = False
                gate_why = " -- no such gate in the arm of variant %d (%s)" % (i, d["variants"][i]["name"])
        R.ob("G2.variant-size-gate", fn, "DATA_MIN_SIZES", gate_ok,
             "%s: before variant i is walked, len(payload) < DATA_MIN_SIZES[i] (i = position of the variant) is refused with InsufficientSize at DATA_OFFSET%s" % (nm, gate_why),
             where=b["span"])
    # error offset
    clos = closures_in(F, b)
    offs = []
    for cj in clos:
        offs += the_return(Body(cj))
    me = find_calls(body, "map_err")
    ok = offs == ["flatty_base::error::Error::offset($e, %d)" % do] and len(me) == 1 and the_return(body).count(canon(body.expr_of_call(me[0][1], 0, me[0][0]))) == 1
    R.ob("E2.enum-offset", fn, "map_err", ok, "%s: payload errors are shifted by DATA_OFFSET (%s) exactly once%s" % (nm, do, "" if ok else " -- found %s" % offs),
         where=b["span"])


def clike_tag_rule(F, R, body, b, fn, nm, nvars, d):
    """accept-set of the raw tag = {0..n-1} = the discriminants rustc assigned."""
    lay = F.layouts.get(F.tymarks.get("__ty_" + nm) or ("flatty_corpus::" + nm)) or F.layouts.get("flatty_corpus::%sTag" % base_name(nm, d))
    discrs = sorted(v["discr"] for v in lay["variants"]) if lay else None
    acc = accept_set(body)
    R.ob("V2.tag-accept-set", fn, "raw-tag", acc is not None and discrs is not None and acc == discrs,
         "%s: the validator accepts exactly the raw tag values %s = rustc's discriminants %s" % (nm, acc, discrs), where=b["span"])


_INT_BITS = {"u8": 8, "u16": 16, "u32": 32, "u64": 64, "u128": 128, "usize": 64, "i8": 8, "i16": 16, "i32": 32, "i64": 64, "i128": 128, "isize": 64}


def const_fold(e):
    """Evaluate an expression built from integer constants with + - * and integer casts (rustc lowers `Enum::V as int` for enums with
    explicit discriminants to `(relative + base) as int`). Returns ("const", v, ty) or the expression unchanged."""
    e0 = e
    if not isinstance(e, tuple):
        return e
    if e[0] in ("copy", "move", "use") and len(e) == 2:
        return const_fold(e[1])
    if e[0] == "const":
        return e
    if e[0] == "cast" and e[1] == "IntToInt":
        x = const_fold(e[2])
        if isinstance(x, tuple) and x[0] == "const" and isinstance(x[1], int):
            ty = e[3]
            bits = _INT_BITS.get(ty)
            if bits is None:
                return e0
            v = x[1] & ((1 << bits) - 1)
            if ty.startswith("i") and v >= (1 << (bits - 1)):
                v -= (1 << bits)
            return ("const", v, ty)
        return e0
    if e[0] == "bin" and e[1] in ("Add", "Sub", "Mul", "AddUnchecked", "SubUnchecked", "MulUnchecked"):
        a, b_ = const_fold(e[2]), const_fold(e[3])
        if isinstance(a, tuple) and isinstance(b_, tuple) and a[0] == "const" and b_[0] == "const" and isinstance(a[1], int) and isinstance(b_[1], int):
            v = {"A": a[1] + b_[1], "S": a[1] - b_[1], "M": a[1] * b_[1]}[e[1][0]]
            return ("const", v, a[2])
        return e0
    return e0


def accept_set(body, width_max=70000):
    """Value-set of the raw integer for which the validator reaches Ok: supports `*tag < N` style comparisons against constants
    and switchInt/range matches on the loaded value. Returns sorted list (bounded universe) or None."""
    oks = []
    for p in body.paths(0):
        evs = events(body, p)
        ret = None
        for ev in evs:
            if ev.kind == "assign" and ev.a["v"] == 0 and not ev.a["p"]:
                ret = canon(body.expr_of_rvalue(ev.b))
        if ret is None or not ret.startswith("Ok{"):
            continue
        lo, hi = 0, None
        exact = None
        excluded = set()
        unknown = False
        infeasible = False
        for ev in evs:
            if ev.kind != "branch":
                continue
            c = ev.a
            if c[0] == "const":
                bt = bool_taken(ev)
                if bt is not None and bt != bool(c[1]):
                    infeasible = True
                continue
            if c[0] == "bin":
                bt = bool_taken(ev)
                n_ = norm_cmp(c, bt) if bt is not None else None
                if not n_:
                    unknown = True
                    continue
                op, l, r_ = n_[0], const_fold(strip(n_[1])), const_fold(strip(n_[2]))
                if r_[0] == "const" and l[0] != "const":
                    v = r_[1]
                    if op == "Lt":
                        hi = v - 1 if hi is None else min(hi, v - 1)
                    elif op == "Le":
                        hi = v if hi is None else min(hi, v)
                    elif op == "Eq":
                        exact = v
                    elif op == "Ne":
                        excluded.add(v)
                elif l[0] == "const":
                    v = l[1]
                    if op == "Lt":
                        lo = max(lo, v + 1)
                    elif op == "Le":
                        lo = max(lo, v)
                    elif op == "Eq":
                        exact = v
                    elif op == "Ne":
                        excluded.add(v)
                else:
                    unknown = True
            elif c[0] == "discr":
                x = strip(c[1])
                if x[0] == "call" and call_matches(x, "Try::branch"):
                    continue
                unknown = True
            else:
                # switch directly on the loaded integer
                if isinstance(ev.b, int):
                    exact = ev.b
                elif isinstance(ev.b, tuple) and ev.b and ev.b[0] == "not":
                    excluded |= set(ev.b[1])
                elif isinstance(ev.b, tuple):
                    oks.extend(ev.b)
                    exact = "multi"
        if infeasible:
            continue
        if unknown:
            return None
        if exact == "multi":
            continue
        if exact is not None:
            oks.append(exact)
        else:
            if hi is None:
                return None
            oks.extend(v for v in range(lo, hi + 1) if v not in excluded)
    return sorted(set(oks))


# ------------------------------------------------------------------ size

def size_rules(F, R, nm, d, m, cs):
    if d["sized"]:
        return
    b = corpus_body(F, nm, trait="flatty_base::traits::FlatBase", method="size")
    body = Body(b)
    fn = nm + "::size"
    rets = the_return(body)
    a = cs.get("ALIGN")
    if d["kind"] == "struct":
        last = len(d["fields"]) - 1
        lfo = cs.get("LAST_FIELD_OFFSET")
        pat = r"^utils::ceil_mul\(Add\(%d, <.* as FlatBase>::size\(\$self\.%d\)\), %d\)$" % (lfo, last, a)
        alt = r"^utils::ceil_mul\(Add\(<.* as FlatBase>::size\(\$self\.%d\), %d\), %d\)$" % (last, lfo, a)
        ok = len(rets) == 1 and (re.match(pat, rets[0]) or re.match(alt, rets[0]))
        if lfo == 0 and len(rets) == 1 and re.match(r"^utils::ceil_mul\(<.* as FlatBase>::size\(\$self\.%d\), %d\)$" % (last, a), rets[0]):
            ok = True
        R.ob("F2.struct-size", fn, "formula", bool(ok),
             "%s: size() = ceil_mul(LAST_FIELD_OFFSET(%s) + last_field.size(), ALIGN(%s))%s" % (nm, lfo, a, "" if ok else " -- found %s" % rets), where=b["span"])
        return
    do = cs.get("DATA_OFFSET")
    # outer formula: ceil_mul(DATA_OFFSET + <match>, ALIGN)
    ok = len(rets) == 1 and re.match(r"^utils::ceil_mul\(Add\(%%\w+, %d\), %d\)$" % (do, a), rets[0]) is not None
    R.ob("F2.enum-size", fn, "formula", ok, "%s: size() = ceil_mul(DATA_OFFSET(%s) + payload size, ALIGN(%s))%s" % (nm, do, a, "" if ok else " -- found %s" % rets),
         where=b["span"])
    sw = tag_switches(body, is_self_tag, declared_discrs(d))
    if len(sw) != 1:
        R.anchor_lost("F6.size-list", fn, "expected one match on self.tag, found %d" % len(sw))
        return
    sbb, tvm, other = sw[0]
    ws = walker_calls(body)
    lists = decl_lists(d)
    okl = True
    found = []
    for i, want in enumerate(lists):
        tgt = tvm.get(i)
        if tgt is None and len([k for k in range(len(lists)) if k not in tvm]) == 1:
            tgt = other
        if tgt is None:
            okl = False
            continue
        reg = region(body, sbb, tgt)
        w = [x for x in ws if x["bb"] in reg]
        found.append([x["types"] for x in w])
        if not want:
            okl = okl and not w
            continue
        if len(w) != 1 or w[0]["types"] != want or w[0]["data"] != "$self.2":
            okl = False
            continue
        fs = [c for c in find_calls(body, "FoldSizeIter::fold_size") if c[0] in reg]
        if len(fs) != 1:
            okl = False
            continue
        e = body.expr_of_call(fs[0][1], 0, fs[0][0])
        if strip(e[3][0])[0] != "call" or strip(e[3][0])[5] != w[0]["bb"] or canon(e[3][1]) != "0":
            okl = False
    R.ob("F6.size-list", fn, "variants", okl,
         "%s: for tag i size() folds the declared field list of variant i over self.data starting from 0%s" % (nm, "" if okl else " -- found %s" % found),
         where=b["span"])


# ------------------------------------------------------------------ accessors

def access_rules(F, R, nm, d, m, cs):
    lists = decl_lists(d)
    for meth, dty in (("as_ref", "UncheckedRefData<'_>"), ("as_mut", "UncheckedMutData<'_>")):
        rs = [b for b in F.poly(krate="flatty_corpus", name=meth) if b.get("impl") and b["impl"].get("self") == "flatty_corpus::" + nm]
        if len(rs) != 1:
            R.anchor_lost("F6.access-list", nm + "::" + meth, "body not found")
            continue
        b = rs[0]
        body = Body(b)
        fn = nm + "::" + meth
        sw = tag_switches(body, is_self_tag, declared_discrs(d))
        if len(sw) != 1:
            R.anchor_lost("F6.access-list", fn, "expected one match on self.tag")
            continue
        sbb, tvm, other = sw[0]
        ws = walker_calls(body)
        okl = True
        why = ""
        for i, want in enumerate(lists):
            tgt = tvm.get(i)
            if tgt is None and len([k for k in range(len(lists)) if k not in tvm]) == 1:
                tgt = other
            if tgt is None:
                okl = False
                why = "no edge for tag %d" % i
                continue
            reg = region(body, sbb, tgt)
            w = [x for x in ws if x["bb"] in reg]
            # the Ref/Mut value built in this region
            aggs = []
            for bb_ in reg:
                for s in body.stmts(bb_):
                    r = s["r"]
                    if "agg" in r and isinstance(r["agg"], dict) and r["agg"].get("adt", "").endswith(nm + ("Ref" if meth == "as_ref" else "Mut")):
                        aggs.append((r["agg"]["variant"], body.expr_of_rvalue(r)))
            if len(aggs) != 1 or aggs[0][0] != i:
                okl = False
                why = "tag %d builds variant %s" % (i, [a[0] for a in aggs])
                continue
            if not want:
                if w:
                    okl = False
                continue
            if len(w) != 1 or w[0]["types"] != want or w[0]["kind"] != "new_unchecked":
                okl = False
                why = "tag %d walks %s" % (i, [x["types"] for x in w])
                continue
            if w[0]["data"] not in ("iter::UncheckedRefData::<'a>::new($self.2)", "iter::UncheckedMutData::<'a>::new($self.2)"):
                okl = False
                why = "tag %d walks %s" % (i, w[0]["data"])
                continue
            if ("Ref" in w[0]["data"]) != (meth == "as_ref"):
                okl = False
            ops = aggs[0][1][2]
            if len(ops) != len(want):
                okl = False
                continue
            for k, op in enumerate(ops):
                c = canon(op)
                nn = c.count("::next(")
                if k < len(want) - 1:
                    if not (c.endswith(".1") and nn == k + 1):
                        okl = False
                        why = "binding %d of variant %d is %s" % (k, i, c[:80])
                else:
                    if not (c.startswith("iter::DataIter::<'a, D, iter::SingleType<T>>::finalize(") and nn == k):
                        okl = False
                        why = "last binding of variant %d is %s" % (i, c[:80])
        R.ob("F6.access-list", fn, "variants", okl,
             "%s: for tag i %s() recomputes the positions of the declared field list of variant i over self.data and binds them in order%s" % (
                 nm, meth, "" if okl else " -- " + why), where=b["span"])


# ------------------------------------------------------------------ Init emplacers

def init_rules(F, R, nm, d, m, cs):
    rs = [b for b in F.poly(krate="flatty_corpus", trait="flatty_base::emplacer::Emplacer", method="emplace_unchecked")
          if b.get("impl") and b["impl"].get("self_adt") == "flatty_corpus::%sInit" % nm and b["defkind"] != "Closure"]
    if len(rs) != 1:
        R.anchor_lost("F6.init-list", nm + "Init", "emplace_unchecked body not found (%d)" % len(rs))
        return
    b = rs[0]
    body = Body(b)
    fn = nm + "Init::emplace_unchecked"
    ws = walker_calls(body)
    lists = decl_lists(d)
    em = find_calls(body, "Emplacer::emplace_unchecked")
    fm = find_calls(body, "FlatUnsized::from_mut_bytes_unchecked")
    ret_ok = len(fm) == 1 and canon(body.expr_of_call(fm[0][1], 0, fm[0][0])[3][0]) == "$__flatty_bytes"
    R.ob("F6.init-returns-view", fn, "result", ret_ok, "%s: the initialiser returns the view of the whole given slice" % nm, where=b["span"])
    if d["kind"] == "struct":
        want = lists[0]
        a = cs.get("ALIGN")
        want_sdata = "core::slice::<impl [T]>::get_unchecked_mut($__flatty_bytes, RangeTo{utils::floor_mul(core::slice::<impl [T]>::len($__flatty_bytes), %d)})" % a
        ok = len(ws) == 1 and ws[0]["types"] == want and ws[0]["kind"] == "new" and ws[0]["data"] == want_sdata
        ok = ok and _field_emplacements(body, em, None, len(want), set(range(body.n)))
        if len(want) > 1:
            R.ob("R1.fields-in-order", fn, "order", _fields_in_order(body, None, len(want)),
                 "%s: fields are written in declaration order, the fallible last field last (a failure leaves the earlier, sized fields of the new value written)" % nm,
                 where=b["span"])
        R.ob("F6.init-list", fn, "fields", ok,
             "%s: the initialiser checks and walks the declared field list %s; field k of the Init value is emplaced into slot k%s" % (
                 nm, want, "" if ok else " -- found %s" % [(w["types"], w["kind"], w["data"]) for w in ws]), where=b["span"])
        return
    do = cs.get("DATA_OFFSET")
    sw = tag_switches(body, is_self)
    if len(sw) != 1:
        R.anchor_lost("F6.init-list", fn, "expected one match on the Init value")
        return
    sbb, tvm, other = sw[0]
    okl, oktag, okdata, r1 = True, True, True, True
    r1b = True
    r1c, n_multi = True, 0
    why = ""
    a = cs.get("ALIGN")
    want_data = payload_range("get_unchecked_mut", do, a)
    gates = find_calls(body, "TypeIter::check_align_and_min_size")
    for i, want in enumerate(lists):
        tgt = tvm.get(i)
        if tgt is None and len([k for k in range(len(lists)) if k not in tvm]) == 1:
            tgt = other
        if tgt is None:
            okl = False
            continue
        reg = region(body, sbb, tgt)
        # tag store: Tag::V_i emplaced at the start of the given bytes
        tags = []
        for (bb_, t) in em:
            if bb_ in reg:
                e = body.expr_of_call(t, 0, bb_)
                s0 = strip(e[3][0])
                if s0[0] == "agg" and s0[1][0] == "adt" and s0[1][1] == "flatty_corpus::%sTag" % nm:
                    tags.append((bb_, s0[1][2], canon(e[3][1])))
        vname = d["variants"][i]["name"]
        if len(tags) != 1 or tags[0][1] != vname or tags[0][2] != "$__flatty_bytes":
            oktag = False
            why = "variant %s stores tag %s" % (vname, tags)
        w = [x for x in ws if x["bb"] in reg]
        if not want:
            if w:
                okl = False
            continue
        if len(w) != 1 or w[0]["types"] != want or w[0]["kind"] != "new":
            okl = False
            why = "variant %s walks %s" % (vname, [(x["types"], x["kind"]) for x in w])
            continue
        if w[0]["data"] != want_data:
            okdata = False
        if not _field_emplacements(body, [c for c in em if c[0] in reg], vname, len(want), reg):
            okl = False
            why = "variant %s: field/slot order" % vname
        if len(want) > 1:
            n_multi += 1
            if not _fields_in_order(body, vname, len(want)):
                r1c = False
        # R1 (C18): the tag store is dominated by the success edge of the per-variant size gate on the same payload range
        if tags and w:
            g = [c for c in gates if c[0] in reg]
            good = False
            if len(g) == 1:
                ge = body.expr_of_call(g[0][1], 0, g[0][0])
                gl = typelist(g[0][1]["call"]["args"][0]) if g[0][1]["call"]["args"] else None
                same = gl == want and canon(ge[3][1]) == payload_range("get_unchecked", do, a)
                okedge = False
                for sb2, st in body.switches():
                    cond = body.expr_of_operand(st["switch"])
                    if cond[0] == "discr":
                        x = strip(cond[1])
                        if x[0] == "call" and call_matches(x, "Try::branch"):
                            inner = strip(x[3][0])
                            while inner[0] == "call" and call_matches(inner, "map_err"):
                                inner = strip(inner[3][0])
                            if inner[0] == "call" and inner[5] == g[0][0]:
                                tvm2 = {int(v): tb for v, tb in st["targets"]}
                                if 0 in tvm2 and body.edge_dominates((sb2, tvm2[0]), tags[0][0]):
                                    okedge = True
                good = same and okedge
            if not good:
                r1 = False
            # the tag is in place before the first field of the new variant is written (a later field failure must not
            # leave the OLD tag over a partly NEW payload)
            fem = [c for c in em if c[0] in reg and c[0] != tags[0][0]]
            if not all(body.dominates(tags[0][0], c[0]) for c in fem):
                r1b = False
    R.ob("F6.init-tag", fn, "tag", oktag, "%s: initialising variant V stores Tag::V at the start of the slice%s" % (nm, "" if oktag else " -- " + why), where=b["span"])
    R.ob("F6.init-list", fn, "variants", okl,
         "%s: initialising variant i checks and walks the declared field list of variant i; field k goes to slot k%s" % (nm, "" if okl else " -- " + why),
         where=b["span"])
    R.ob("F6.init-data", fn, "payload-start", okdata, "%s: payload fields are emplaced from DATA_OFFSET (%s)" % (nm, do), where=b["span"])
    anyfields = any(lists)
    if anyfields:
        R.ob("V5i.init-range", fn, "enum-payload-range", okdata,
             "%s: the initialiser hands the field emplacers exactly the payload the returned view covers (floor_mul(len - DATA_OFFSET, ALIGN=%s))" % (nm, a),
             where=b["span"])
        if n_multi:
            R.ob("R1.fields-in-order", fn, "order", r1c,
                 "%s: within a variant the fields are written in declaration order, the fallible last field last" % nm, where=b["span"])
        R.ob("R1.tag-before-fields", fn, "order", r1b,
             "%s: the new tag is stored before any field of the new variant is emplaced (payload and tag never disagree about the variant being written)" % nm,
             where=b["span"])
        R.ob("R1.tag-after-size-gate", fn, "order", r1,
             "%s: the tag is stored only after the per-variant size check on the payload succeeded (a refused assignment keeps the old tag)" % nm,
             where=b["span"])


def _field_emplacements(body, em_calls, vname, nfields, reg):
    """k-th field of self (or of the downcast variant) is emplaced into the k-th slot of the walker."""
    seen = {}
    for (bb_, t) in em_calls:
        e = body.expr_of_call(t, 0, bb_)
        s0 = strip(e[3][0])
        if s0[0] == "field":
            base = strip(s0[1])
            if vname is None and base[0] == "param" and base[1] == 1:
                k = s0[2]
            elif vname is not None and base[0] == "downcast" and base[2] == vname:
                k = s0[2]
            else:
                continue
            slot = canon(e[3][1])
            nn = slot.count("::next(")
            if k < nfields - 1:
                good = slot.endswith(".1") and nn == k + 1
            else:
                good = slot.startswith("iter::DataIter::<'a, D, iter::SingleType<T>>::finalize(") and nn == k
            seen[k] = good
            _LAST_ORDER.setdefault(id(body), {})[(vname, k)] = bb_
    return sorted(seen) == list(range(nfields)) and all(seen.values())


_LAST_ORDER = {}


def _fields_in_order(body, vname, nfields):
    """the emplacement of field k dominates the emplacement of field k+1: the only fallible step (the last, possibly unsized field) comes last"""
    o = _LAST_ORDER.get(id(body), {})
    bbs = [o.get((vname, k)) for k in range(nfields)]
    if any(b is None for b in bbs):
        return False
    return all(body.dominates(bbs[k], bbs[k + 1]) and bbs[k] != bbs[k + 1] for k in range(nfields - 1))


# ------------------------------------------------------------------ ptr_from_bytes / ptr_to_bytes

def ptr_rules(F, R, nm, d, m, cs):
    a = cs.get("ALIGN")
    pf = corpus_body(F, nm, trait="flatty_base::traits::FlatUnsized", method="ptr_from_bytes")
    pt = corpus_body(F, nm, trait="flatty_base::traits::FlatUnsized", method="ptr_to_bytes")
    rf, rt = the_return(Body(pf)), the_return(Body(pt))
    if d["kind"] == "enum":
        do = cs.get("DATA_OFFSET")
        wf = "mem::set_slice_ptr_len($__flatty_bytes, utils::floor_mul(Sub(mem::slice_ptr_len($__flatty_bytes), %d), %d))" % (do, a)
        wt = "mem::set_slice_ptr_len($this, Add(%d, mem::slice_ptr_len($this)))" % do
        R.ob("F1.enum-view", nm + "::ptr_from_bytes", "extent", rf == [wf],
             "%s: payload extent = floor_mul(len - DATA_OFFSET(%s), ALIGN(%s))%s" % (nm, do, a, "" if rf == [wf] else " -- found %s" % rf), where=pf["span"])
        R.ob("F1.enum-bytes", nm + "::ptr_to_bytes", "extent", rt == [wt],
             "%s: bytes = DATA_OFFSET + payload extent%s" % (nm, "" if rt == [wt] else " -- found %s" % rt), where=pt["span"])
    else:
        lfo = cs.get("LAST_FIELD_OFFSET")
        okf = len(rf) == 1 and re.match(
            r"^core::ptr::slice_from_raw_parts_mut\(core::ptr::mut_ptr::<impl \*mut T>::offset\(<(.*) as FlatUnsized>::ptr_from_bytes\(mem::offset_slice_ptr_start\(FLOORED, \(%d as isize\)\)\), Neg\(\(%d as isize\)\)\), core::ptr::non_null::NonNull::<\[T\]>::len\(core::ptr::non_null::NonNull::<T>::new_unchecked\(<\1 as FlatUnsized>::ptr_from_bytes\(mem::offset_slice_ptr_start\(FLOORED, \(%d as isize\)\)\)\)\)\)$" % (lfo, lfo, lfo),
            rf[0].replace("mem::set_slice_ptr_len($__flatty_bytes, utils::floor_mul(mem::slice_ptr_len($__flatty_bytes), %d))" % a, "FLOORED")) is not None
        R.ob("F1.struct-view", nm + "::ptr_from_bytes", "delegation", okf,
             "%s: the struct view is the last field's view of bytes[LAST_FIELD_OFFSET(%s)..], moved back by the same offset%s" % (nm, lfo, "" if okf else " -- found %s" % rf),
             where=pf["span"])
        okt = len(rt) == 1 and re.match(
            r"^mem::offset_slice_ptr_start\(<.* as FlatUnsized>::ptr_to_bytes\(core::ptr::slice_from_raw_parts_mut\(core::ptr::mut_ptr::<impl \*mut T>::offset\(\$this, \(%d as isize\)\), core::ptr::non_null::NonNull::<\[T\]>::len\(core::ptr::non_null::NonNull::<T>::new_unchecked\(\$this\)\)\)\), Neg\(\(%d as isize\)\)\)$" % (lfo, lfo),
            rt[0]) is not None
        rounded = False
        if not okt and len(rt) == 1:
            # repaired form: the same pointer with its length rounded up to the struct's ALIGN
            m2 = re.match(r"^mem::set_slice_ptr_len\((.*), utils::ceil_mul\(mem::slice_ptr_len\((.*)\), %d\)\)$" % a, rt[0])
            if m2 and m2.group(1) == m2.group(2):
                inner = m2.group(1)
                okt = re.match(
                    r"^mem::offset_slice_ptr_start\(<.* as FlatUnsized>::ptr_to_bytes\(core::ptr::slice_from_raw_parts_mut\(core::ptr::mut_ptr::<impl \*mut T>::offset\(\$this, \(%d as isize\)\), core::ptr::non_null::NonNull::<\[T\]>::len\(core::ptr::non_null::NonNull::<T>::new_unchecked\(\$this\)\)\)\), Neg\(\(%d as isize\)\)\)$" % (lfo, lfo),
                    inner) is not None
                rounded = okt
        R.ob("F1.struct-bytes", nm + "::ptr_to_bytes", "delegation", okt,
             "%s: the struct's bytes are the last field's bytes extended back by LAST_FIELD_OFFSET%s%s" % (
                 nm, " and rounded up to ALIGN" if rounded else "", "" if okt else " -- found %s" % rt), where=pt["span"])
        # own-bytes round trip, evaluated on the recognised formulas with this type's constants: re-mapping as_bytes() of a view
        # gives the same capacity of a trailing FlatVec / FlatString (C02 "its own bytes validate again", C05, C11, C18)
        last = d["fields"][-1]
        if okt and okf and last["kind"] in ("vec", "string") and last.get("elem_size") and last.get("data_offset") is not None:
            sz = last["elem_size"]
            av, offv = last["align"], last["data_offset"]
            ms = cs.get("MIN_SIZE")
            bad = []
            n = ms
            while n <= ms + 24 * a:
                room = n - lfo
                cap = ((room - offv) // av * av) // sz
                to = lfo + -(-(offv + cap * sz) // av) * av
                if rounded:
                    to = -(-to // a) * a
                n2 = to // a * a
                cap2 = ((n2 - lfo - offv) // av * av) // sz if n2 - lfo >= offv else -1
                if cap2 != cap or to > n:
                    bad.append((n, cap, to, cap2))
                n += a
            R.ob("F1.own-bytes-roundtrip", nm, "struct-tail-capacity", not bad,
                 "%s: as_bytes() of a mapped value re-maps to the same capacity of its trailing %s for every reachable length%s" % (
                     nm, last["fty"], "" if not bad else " -- (len, capacity, as_bytes().len(), capacity after re-mapping) e.g. %s" % (bad[:3],)), where=pt["span"])
        # in-bounds lemma for struct views needs len floored to ALIGN when ALIGN > last field's granule
        R.ob("F1.struct-view-floor", nm + "::ptr_from_bytes", "granule", okf and "utils::floor_mul(mem::slice_ptr_len($__flatty_bytes), %d)" % a in rf[0],
             "%s: the slice length is floored to the struct's ALIGN (%s) before delegating to the last field, so size_of_val(view) <= len" % (nm, a),
             where=pf["span"])


# ------------------------------------------------------------------ defaults

def default_rules(F, R, nm, d, m, cs):
    if d["sized"]:
        # derive(Default) present
        have = any(im["trait"] == "core::default::Default" and im["self"] == "flatty_corpus::" + nm and im["derived"] for im in F.impls)
        R.ob("D1.sized-derive-default", nm, "derive", have, "%s (default = true, sized) gets #[derive(Default)]" % nm, nontrivial=False)
        if d["kind"] == "enum":
            # the derived default builds the variant marked #[default] in the source
            bs = [b for b in F.poly(krate="flatty_corpus", trait="core::default::Default", method="default")
                  if b["impl"]["self"] == "flatty_corpus::" + nm]
            want = [v["name"] for v in d["variants"] if v["default"]]
            ok = False
            if len(bs) == 1:
                rets = the_return(Body(bs[0]))
                ok = len(rets) == 1 and want and rets[0].startswith(want[0] + "{")
            R.ob("D1.sized-default-variant", nm, "variant", ok, "%s: Default::default() is the variant marked #[default] (%s)" % (nm, want), where=None)
        return
    b = corpus_body(F, nm, trait="flatty_base::traits::FlatDefault", method="default_emplacer")
    body = Body(b)
    rets = the_return(body)
    fn = nm + "::default_emplacer"
    if d["kind"] == "struct":
        n = len(d["fields"])
        calls = find_calls(body, "FlatDefault::default_emplacer")
        tys = [strip_paths(t["call"]["args"][0]) for _, t in calls]
        # order of the aggregate operands
        ok = len(rets) == 1 and rets[0].startswith("%sInit{" % nm)
        order = []
        for bb, i, s in body.assigns():
            if s["l"]["v"] == 0 and not s["l"]["p"] and "agg" in s["r"]:
                e = body.expr_of_rvalue(s["r"])
                for op in e[2]:
                    o = strip(op)
                    if o[0] == "call" and call_matches(o, "FlatDefault::default_emplacer"):
                        order.append(strip_paths(o[2][0]))
        want = [f["fty"] for f in d["fields"]]
        ok = ok and order == want
        R.ob("D2.struct-default", fn, "fields", ok,
             "%s: the default emplacer is Init{default_emplacer() of every declared field, in order}%s" % (nm, "" if ok else " -- found %s, want %s" % (order, want)),
             where=b["span"])
    else:
        want = [v["name"] for v in d["variants"] if v["default"]]
        ok = len(rets) == 1 and want and rets[0] == "%sInit%s{}" % (nm, want[0])
        im = [i for i in F.impls if i["trait"] == "flatty_base::traits::FlatDefault" and i["self"] == "flatty_corpus::" + nm]
        at = None
        if im:
            at = [a["ty"] for a in im[0]["assoc"] if a["name"] == "DefaultEmplacer"]
        ok = ok and at == ["flatty_corpus::%sInit%s" % (nm, want[0])] if want else False
        R.ob("D2.enum-default", fn, "variant", bool(ok),
             "%s: the default emplacer initialises the variant the source marks #[default] (%s)%s" % (nm, want, "" if ok else " -- found %s / %s" % (rets, at)),
             where=b["span"])


HIJ_ITEMS = ("ALIGN", "MIN_SIZE", "SIZE", "size", "ptr_from_bytes", "ptr_to_bytes", "from_bytes_unchecked", "from_mut_bytes_unchecked", "as_bytes",
             "as_mut_bytes", "new_in_place", "assign_in_place", "validate_unchecked", "validate_ptr", "validate", "from_bytes", "from_mut_bytes",
             "default_in_place", "default_emplacer", "emplace", "emplace_unchecked", "into", "from")


def hygiene_rules(F, R):
    """H1: the corpus types H* (and USInh / UEInh / SDefHij) carry inherent items with the name and signature of every item of the flatty
    traits. Code generated by #[flat] (bodies from expansion) must name trait items through the trait: no such body may reference one of
    the inherent items - if it does, a user type with an item of that name silently replaces the trait's in generated (partly unsafe) code."""
    import json as _json
    pat = re.compile(r"flatty_corpus::(H\w+|USInh|UEInh|SDefHij)::(%s)\b" % "|".join(HIJ_ITEMS))
    carriers = {a for a in F.adts if re.match(r"flatty_corpus::(H\w+|USInh|UEInh|SDefHij)$", a)}
    n = 0
    seen = set()
    for b in F.poly(krate="flatty_corpus"):
        if not b.get("from_expansion"):
            continue
        n += 1
        txt = _json.dumps({k: v for k, v in b.items() if k not in ("id", "def", "parent", "name", "impl", "span")})
        for m in pat.finditer(txt):
            key = (b["def"], m.group(1), m.group(2))
            if key in seen:
                continue
            seen.add(key)
            R.ob("H1.no-hijack", short(b["def"]), "%s::%s" % (m.group(1), m.group(2)), False,
                 "%s (generated by #[flat]) names `%s` so that the inherent item `%s::%s` of the user's type is used instead of the trait's" % (
                     short(b["def"]), m.group(2), m.group(1), m.group(2)), where=b["span"])
    R.ob("H1.no-hijack", "flatty_corpus", "generated-bodies", len(carriers) >= 9 and n >= 100,
         "generated bodies reference no inherent item that shadows a trait item (%d generated bodies scanned, %d carrier types with inherent "
         "look-alikes of %d trait item names)" % (n, len(carriers), len(HIJ_ITEMS)), where="corpus")
    R.floor("H1", "generated bodies scanned", n, 100)


def tag_accept_rules(F, R):
    """V2: for every field-less repr(int) enum with a FlatValidate impl (generated Tag enums, C-like #[flat] enums, Bool):
    the set of raw values reaching Ok equals the set of declared discriminants."""
    n = 0
    for b in F.bodies:
        im = b.get("impl")
        if not im or im.get("trait") != "flatty_base::traits::FlatValidate" or im.get("method") != "validate_unchecked":
            continue
        if b["defkind"] == "Closure":
            continue
        adt = F.adts.get(im.get("self_adt") or "")
        if not adt or adt["adt_kind"] != "enum" or any(v["fields"] for v in adt["variants"]) or not adt["repr_int"]:
            continue
        discrs = sorted(int(v["discr"]) for v in adt["variants"])
        body = Body(b)
        acc = accept_set(body)
        n += 1
        nm = im["self"]
        R.ob("V2.tag-accept-set", nm + "::validate_unchecked", "raw-value", acc == discrs,
             "%s: raw values accepted %s = declared discriminants %s" % (nm, acc, discrs), where=b["span"])
        # an undeclared value is reported as InvalidEnumTag at the start of the tag (offset 0 of the bytes given; the callers add their offsets)
        errs = sorted(set(canon(body.expr_of_rvalue(s_["r"])) for bb_, i_, s_ in body.assigns()
                          if s_["l"]["v"] == 0 and not s_["l"]["p"] and canon(body.expr_of_rvalue(s_["r"])).startswith("Err{")))
        def _fold_pos(e):
            m_ = re.fullmatch(r"(Err\{Error\{\w+\{\}, )(Sub|Add)\((\d+), (\d+)\)(\}\})", e)
            if m_:
                v_ = int(m_.group(3)) - int(m_.group(4)) if m_.group(2) == "Sub" else int(m_.group(3)) + int(m_.group(4))
                return "%s%d%s" % (m_.group(1), v_, m_.group(5))
            return e
        errs = sorted(set(_fold_pos(e) for e in errs))
        R.ob("E1.tag-pos", nm + "::validate_unchecked", "error", errs == ["Err{Error{InvalidEnumTag{}, 0}}"] or (nm.endswith("Bool") and errs == ["Err{Error{InvalidData{}, 0}}"]),
             "%s: an undeclared tag value is InvalidEnumTag at offset 0 of the tag (found %s)" % (nm, errs), where=b["span"])
        # the raw value is loaded as an integer (never as the enum) before the check
        loads_enum = False
        for bb, t in body.calls():
            c = t["call"]
            if c.get("def", "").endswith("from_bytes_unchecked") and c["args"] and c["args"][0] == nm:
                loads_enum = True
        R.ob("V2.raw-integer", nm + "::validate_unchecked", "load", not loads_enum,
             "%s: the validator inspects the raw integer, it does not read the bytes as the enum" % nm, nontrivial=False, where=b["span"])
    R.floor("V2", "field-less enum validators", n, 10)
