"""Container rules on the generic source of flatty_containers (hold for every T, L):
validators (V3/V4/elements), error offsets (C19), FlexVec chain protocol (C12), push atomicity (C13),
Empty / FromArray / FromIterator / FromStr emplacers (C03e, C18, C20)."""
import re
from facts import AnchorLost
from mir import Body, strip
from paths import events, call_matches, find_calls, bool_taken, norm_cmp
from e5_formulas import canon, the_return, short

FC = "flatty_containers"
FVT = "flatty_base::traits::FlatValidate"
EMP = "flatty_base::emplacer::Emplacer"


def ab(s):
    reps = [
        ("<core::result::Result<T, E> as core::ops::try_trait::Try>::branch", "Try"),
        ("<core::option::Option<T> as core::ops::try_trait::Try>::branch", "TryO"),
        ("<fc::vec::FlatVec<T, L> as core::ops::deref::Deref>::deref", "deref"),
        ("<fc::string::FlatString<L> as core::ops::deref::Deref>::deref", "deref"),
        ("<fc::vec::FlatVec<T, L> as core::ops::deref::DerefMut>::deref_mut", "deref_mut"),
        ("<fc::string::FlatString<L> as core::ops::deref::DerefMut>::deref_mut", "deref_mut"),
        ("stavec::generic::GenericVec::<C, L>::", "gv::"),
        ("stavec::string::GenericString::<C, L>::", "gs::"),
        ("FlatUnsized::from_bytes_unchecked($bytes)", "THIS"),
        ("FlatUnsized::from_mut_bytes_unchecked($bytes)", "THISM"),
        ("core::slice::<impl [T]>::", "slice::"),
        ("<fc::vec::FlatVec<T, L> as fc::vec::DataOffset<T, L>>::DATA_OFFSET", "DATA_OFFSET"),
        ("<fc::string::FlatString<L> as fc::string::DataOffset<L>>::DATA_OFFSET", "DATA_OFFSET"),
        ("fc::flex::FlexVec::<T, L>::OFFSET_SIZE", "OFFSET_SIZE"),
        ("<fc::flex::FlexVec<T, L> as FlatBase>::ALIGN", "ALIGN"),
        ("num_traits::identities::Zero::zero()", "ZERO"),
        ("num_traits::bounds::Bounded::max_value()", "MAX"),
        ("flatty_base::emplacer::Emplacer::", "Emplacer::"),
    ]
    for a, b in reps:
        s = s.replace(a, b)
    return s


def one(F, **kw):
    return F.one(**kw)


def switch_facts(body):
    """(bb, normalised condition when taking the 'otherwise' (true) edge, true target, false target)"""
    out = []
    for sbb, st in body.switches():
        cond = body.expr_of_operand(st["switch"])
        ft = [b for v, b in st["targets"] if int(v) == 0]
        if cond[0] in ("bin",) and ft:
            n = norm_cmp(cond, True)
            if n:
                out.append((sbb, (n[0], ab(canon(n[1])), ab(canon(n[2]))), st["otherwise"], ft[0]))
    return out


def ret_stores(body, region=None):
    out = []
    for bb, i, s in body.assigns():
        if s["l"]["v"] == 0 and not s["l"]["p"] and (region is None or bb in region):
            out.append((bb, ab(canon(body.expr_of_rvalue(s["r"])))))
    return out


def read_points(body, op, depth=0):
    """Blocks where the memory behind an operand is actually read: follow whole-local copies / refs back to the statement that reads a place
    with a projection (a field of a longer-lived object). The canonical expression of `x.f` read before and after a call is the same text;
    the read point tells them apart."""
    if depth > 8 or not isinstance(op, dict):
        return []
    pl = op.get("c") or op.get("m")
    if pl is None:
        return []
    if pl["p"]:
        return None   # the operand itself is a projected read at its use site
    ds = body.defs().get(pl["v"], [])
    out = []
    for bb, i, r in ds:
        if i == "term":
            out.append(bb)
            continue
        if "use" in r:
            sub = read_points(body, r["use"], depth + 1)
            out.extend([bb] if sub is None else sub)
        elif "ref" in r:
            rp = r["ref"]
            if rp["p"]:
                out.append(bb)   # a reference to a field: the value is read later, through the reference
                out.append(("via-ref", bb))
            else:
                sub = read_points(body, {"c": rp}, depth + 1)
                out.extend([bb] if sub is None else sub)
        else:
            out.append(bb)
    return out


def count_per_path(body, var, stop_bb, full, ones):
    """The local `var` (several definitions) evaluated along every path to stop_bb: it must be `full`, except on paths that established
    `T::SIZE == 0`, where it must be one of `ones` (at most one element stands for all elements of a zero-sized type).
    Returns True iff that holds on every path, the element size is consulted on every path, and there are at least two paths."""
    per_path, npth = True, 0
    for pth in body.paths(0, stop=[stop_bb]):
        if pth[-1] != stop_bb:
            continue
        npth += 1
        zst, val = None, None
        for ev in events(body, pth):
            if ev.kind == "branch":
                c = ev.a
                if c[0] == "bin":
                    bt = bool_taken(ev)
                    n_ = norm_cmp(c, bt) if bt is not None else None
                    if n_ and n_[0] in ("Eq", "Ne") and {canon(n_[1]), canon(n_[2])} == {"0", "<T as FlatSized>::SIZE"}:
                        zst = n_[0] == "Eq"
                elif canon(c) == "<T as FlatSized>::SIZE":
                    zst = (ev.b == 0) if isinstance(ev.b, int) else (False if ev.b and ev.b[0] == "not" and 0 in ev.b[1] else zst)
            elif ev.kind == "assign" and not ev.a["p"] and body.local_name(ev.a["v"]) == var:
                val = ab(canon(body.expr_of_rvalue(ev.b)))
            elif ev.kind == "call":
                dl = ev.a.get("dest")
                if dl and not dl["p"] and body.local_name(dl["v"]) == var:
                    val = ab(canon(ev.b))
        if zst is True:
            per_path = per_path and val in ones
        else:
            per_path = per_path and val == full
        if zst is None:
            per_path = False   # the element size is not consulted on this path
    return per_path and npth >= 2


def closures_of(F, b):
    return [bj for bj in F.bodies if bj["id"].startswith(b["id"] + "::{closure")]


# ------------------------------------------------------------------------------------ validators

def vec_string_validators(F, R):
    for kind, adt, lenf, capf in (("vec", "flatty_containers::vec::FlatVec", "gv::len(deref(THIS))", "gv::capacity(deref(THIS))"),
                                  ("string", "flatty_containers::string::FlatString", "gs::len(deref(THIS))", "gs::capacity(deref(THIS))")):
        b = one(F, krate=FC, trait=FVT, method="validate_unchecked", self_adt=adt)
        body = Body(b)
        fn = "%s::validate_unchecked" % adt.split("::")[-1]
        R.count("functions_analysed")
        # the length word is validated first, on the same bytes
        lv = [c for c in find_calls(body, "FlatValidate::validate_unchecked") if c[1]["call"]["args"] == ["L"]]
        ok = len(lv) == 1 and ab(canon(body.expr_of_call(lv[0][1], 0, lv[0][0])[3][0])) == "$bytes"
        R.ob("V1.len-word-validated", fn, "L::validate_unchecked", ok, "%s: the length word (type L) at the start of the slice is validated" % fn, where=b["span"])
        # V4: len > capacity  => Err(InsufficientSize, DATA_OFFSET); exact operator and operands
        gate = None
        for sbb, n, tt, ff in switch_facts(body):
            if n == ("Lt", capf, lenf):
                gate = (sbb, tt, ff)
        ok = gate is not None
        if ok:
            sbb, tt, ff = gate
            errs = [r for bb_, r in ret_stores(body, body.reachable_from(tt, avoid=[ff]))]
            ok = errs == ["Err{Error{InsufficientSize{}, DATA_OFFSET}}"]
        R.ob("V4.len-le-capacity", fn, "len>capacity", ok,
             "%s: exactly `len() > capacity()` of the mapped view is refused, with InsufficientSize at DATA_OFFSET" % fn, where=b["span"])
        if gate is None:
            continue
        sbb, tt, ff = gate
        gu = find_calls(body, "get_unchecked")
        okr = len(gu) == 1 and body.edge_dominates((sbb, ff), gu[0][0])
        if kind == "vec":
            want = "slice::get_unchecked(gv::data(deref(THIS)), RangeTo{%s})" % lenf
            got = ab(canon(body.expr_of_call(gu[0][1], 0, gu[0][0]))) if gu else ""
            zst_ok = False
            m_ = re.fullmatch(r"slice::get_unchecked\(gv::data\(deref\(THIS\)\), RangeTo\{%(\w+)\}\)", got)
            if m_ and gu:
                # the range end is a local with several definitions: evaluate it along every path to the slicing call.
                # It must be len, except for a zero-sized element type (unbounded capacity): there one element stands for all.
                var = m_.group(1)
                mins = {"core::cmp::Ord::min(%s, 1)" % lenf, "core::cmp::Ord::min(1, %s)" % lenf, "core::cmp::min(%s, 1)" % lenf, "core::cmp::min(1, %s)" % lenf}
                zst_ok = count_per_path(body, var, gu[0][0], lenf, mins)
                if zst_ok:
                    want = got
            okr = okr and got == want
            R.ob("V1.elements-range", fn, "data[..len]", okr,
                 "%s: exactly the first len() elements of the view's data are inspected (one representative when the element type is zero-sized), after the capacity check" % fn,
                 where=b["span"])
            if R.pid in ("C01", "C10"):
                R.ob("V1.zst-bounded", fn, "loop-bound", zst_ok,
                     "%s: the number of element checks is bounded by the input: len <= capacity = bytes / SIZE for SIZE > 0, and at most one check when SIZE == 0 "
                     "(the capacity of a vector of zero-sized elements is unbounded, so `len` alone is an attacker-chosen 2^64)" % fn, where=b["span"])
            # element loop: enumerate over that slice, validate_ptr(as_ptr(x)) for T, error offset DATA_OFFSET + i*SIZE
            vp = [c for c in find_calls(body, "FlatValidate::validate_ptr") if c[1]["call"]["args"] == ["T"]]
            oke = len(vp) == 1
            if oke:
                e = ab(canon(body.expr_of_call(vp[0][1], 0, vp[0][0])))
                oke = e.startswith("FlatValidate::validate_ptr(fc::vec::MaybeInvalid::<T>::as_ptr(") and want in e
                # its error is propagated (Try) after map_err
                me = find_calls(body, "map_err")
                oke = oke and len(me) == 1 and strip(body.expr_of_call(me[0][1], 0, me[0][0])[3][0])[5] == vp[0][0]
            R.ob("V1.elements-validated", fn, "validate_ptr", oke,
                 "%s: every inspected element is validated as T and a failure is returned" % fn, where=b["span"])
            cl = closures_of(F, b)
            offs = [ab(r) for c in cl for r in the_return(Body(c))]
            wanto = "flatty_base::error::Error::offset($e, Add(DATA_OFFSET, Mul($1.0, <T as FlatSized>::SIZE)))"
            R.ob("E1.err-offset", fn, "element", offs == [wanto],
                 "%s: an element's error is shifted by DATA_OFFSET + i * SIZE%s" % (fn, "" if offs == [wanto] else " -- found %s" % offs), where=b["span"])
            # the index i of the closure is the enumerate index of the same element
            oki = False
            for bb, i, s in body.assigns():
                r = s["r"]
                if "agg" in r and isinstance(r["agg"], dict) and "closure" in r["agg"]:
                    e = body.expr_of_rvalue(r)
                    oki = all(ab(canon(x)).endswith(".0.0") or "Enumerate" in ab(canon(x)) for x in e[2]) and len(e[2]) == 1
            R.ob("E1.err-offset-index", fn, "enumerate-index", oki, "%s: i is the element's own index (enumerate over the inspected slice)" % fn, where=b["span"])
        else:
            want = "slice::get_unchecked(<[T] as core::convert::AsRef<[T]>>::as_ref(gv::data(gs::as_vec(THIS.0))), RangeTo{%s})" % lenf
            okr = okr and ab(canon(body.expr_of_call(gu[0][1], 0, gu[0][0]))) == want
            fu = find_calls(body, "from_utf8")
            okr = okr and len(fu) == 1 and ab(canon(body.expr_of_call(fu[0][1], 0, fu[0][0]))) == "core::str::converts::from_utf8(%s)" % want \
                and body.edge_dominates((sbb, ff), fu[0][0])
            R.ob("V3.utf8-range", fn, "from_utf8(data[..len])", okr,
                 "%s: UTF-8 is checked on exactly the first len() bytes of the view's data, after the capacity check (a prefix is never a content error)" % fn,
                 where=b["span"])
            # outcomes: Ok only on from_utf8 Ok edge; Err(InvalidData, DATA_OFFSET + valid_up_to)
            rs = sorted(r for _, r in ret_stores(body))
            fu_e = "core::str::converts::from_utf8(%s)" % want
            want_rs = sorted(["Err{Error{InsufficientSize{}, DATA_OFFSET}}", "Ok{tuple{}}",
                              "Err{Error{InvalidData{}, Add(DATA_OFFSET, core::str::error::Utf8Error::valid_up_to((%s as Err).0))}}" % fu_e])
            okm = rs == want_rs
            if okm and fu:
                # Ok store only on the Ok edge of from_utf8
                for s2, st in body.switches():
                    cond = body.expr_of_operand(st["switch"])
                    if cond[0] == "discr" and strip(cond[1])[0] == "call" and strip(cond[1])[5] == fu[0][0]:
                        tv = {int(v): t_ for v, t_ in st["targets"]}
                        okb = [bb_ for bb_, r in ret_stores(body) if r == "Ok{tuple{}}"]
                        okm = 0 in tv and all(body.edge_dominates((s2, tv[0]), x) for x in okb)
            R.ob("V3.utf8-outcomes", fn, "results", okm,
                 "%s: Ok only when from_utf8 succeeded; malformed UTF-8 is InvalidData at DATA_OFFSET + valid_up_to()%s" % (fn, "" if okm else " -- found %s" % rs),
                 where=b["span"])


def array_validator(F, R):
    b = one(F, krate="flatty_base", trait=FVT, method="validate_unchecked", self_re=r"^\[T; N\]$")
    body = Body(b)
    fn = "[T; N]::validate_unchecked"
    vc = [c for c in find_calls(body, "FlatValidate::validate_unchecked") if c[1]["call"]["args"] == ["T"]]
    ok = len(vc) == 1
    if ok:
        e = canon(body.expr_of_call(vc[0][1], 0, vc[0][0]))
        ok = re.match(r"^FlatValidate::validate_unchecked\(core::slice::<impl \[T\]>::get_unchecked\(core::slice::<impl \[T\]>::get_unchecked\(\$bytes, RangeFrom\{Mul\((.*), <T as FlatSized>::SIZE\)\}\), RangeTo\{<T as FlatSized>::SIZE\}\)\)$", e) is not None \
            and ("Range{0, k(N)}" in e or re.search(r"Range\{0, %(\w+)\}", e) is not None)
    zst_ok = False
    m_ = re.search(r"Range\{0, %(\w+)\}", e) if ok else None
    if m_:
        # the bound is a local: N, except one representative for a zero-sized element type
        ii = find_calls(body, "IntoIterator::into_iter")
        zeros_or_one = {"1", "0"}   # `if N > 0 { 1 } else { 0 }`, `min(N, 1)` ...
        ones = {"core::cmp::Ord::min(k(N), 1)", "core::cmp::Ord::min(1, k(N))", "core::cmp::min(k(N), 1)", "core::cmp::min(1, k(N))"} | zeros_or_one
        zst_ok = len(ii) == 1 and count_per_path(body, m_.group(1), ii[0][0], "k(N)", ones)
        ok = ok and zst_ok
    R.ob("V1.array-elements", fn, "elements", ok,
         "%s: element i (0 <= i < N) is validated on bytes[i*SIZE..][..SIZE] (one representative when the element type is zero-sized)" % fn, where=b["span"])
    if R.pid in ("C01", "C10"):
        R.ob("V1.zst-bounded", fn, "loop-bound", zst_ok,
             "%s: the number of element checks is bounded by the input: N * SIZE <= bytes for SIZE > 0, at most one check when SIZE == 0 "
             "([(); 1 << 40] is a legal 0-byte type)" % fn, where=b["span"])
    offs = [r for c in closures_of(F, b) for r in the_return(Body(c))]
    want = "flatty_base::error::Error::offset($e, Mul($1.0, <T as FlatSized>::SIZE))"
    R.ob("E1.err-offset", fn, "element", offs == [want], "%s: an element's error is shifted by i * SIZE%s" % (fn, "" if offs == [want] else " -- found %s" % offs),
         where=b["span"])


def flex_validator(F, R):
    b = one(F, krate=FC, trait=FVT, method="validate_unchecked", self_adt="flatty_containers::flex::FlexVec")
    body = Body(b)
    fn = "FlexVec::validate_unchecked"
    nw = find_calls(body, "flex::DataIter::<'a, T, L, D>::new")
    rng = "slice::get_unchecked($bytes, RangeTo{utils::floor_mul(slice::len($bytes), ALIGN)})"
    ok = len(nw) == 1 and ab(canon(body.expr_of_call(nw[0][1], 0, nw[0][0])[3][0])) == rng
    R.ob("V5.validated-range", fn, "flex-range", ok,
         "%s: the chain is walked over exactly the bytes the view covers (bytes[..floor_mul(len, ALIGN)])" % fn, where=b["span"])
    vc = [c for c in find_calls(body, "FlatValidate::validate") if c[1]["call"]["args"] == ["T"]]
    ok = len(vc) == 1
    if ok:
        e = ab(canon(body.expr_of_call(vc[0][1], 0, vc[0][0])))
        ok = e.startswith("FlatValidate::validate((Try((<fc::flex::DataIter<'a, T, L, D> as core::iter::traits::iterator::Iterator>::next(") and e.endswith("as Some).0) as Continue).0)")
    if ok:
        # ... every one of them: nothing validates an item without the gate (validate_unchecked::<T>), and from the point where the item's
        # bytes are known neither the next step of the walk nor a return is reachable around the checked call
        unchecked = [c for c in find_calls(body, "FlatValidate::validate_unchecked") if c[1]["call"]["args"] == ["T"]]
        nxt = [bb_ for bb_, t_ in body.calls() if call_matches(body.expr_of_call(t_, 0, bb_), "Iterator::next", "next")]
        starts = []
        for sbb, st in body.switches():
            c = body.expr_of_operand(st["switch"])
            if c[0] == "discr" and ab(canon(c)).startswith("discr(Try((<fc::flex::DataIter<'a, T, L, D> as core::iter::traits::iterator::Iterator>::next("):
                starts += [tb for v, tb in st["targets"] if int(v) == 0]
        around = set()
        for s0 in starts:
            around |= body.reachable_from(s0, avoid=[vc[0][0]])
        rets_around = [bb_ for bb_, r_ in ret_stores(body) if bb_ in around and r_.startswith("Ok{")]
        ok = not unchecked and len(nxt) == 1 and bool(starts) and nxt[0] not in around and not rets_around
    R.ob("V1.flex-items", fn, "items", ok, "%s: every item the chain walk yields is fully validated as T (alignment, size and content): no item is "
         "passed to the unchecked validator and no path continues the walk or returns Ok around the checked call" % fn, where=b["span"])
    # the error mapper of an item: captures (in some order) the slot position read BEFORE the step and `sealed` = the walker still has data
    # AFTER the step; it shifts by pos + OFFSET_SIZE and turns the shortfall of a sealed item into a content error
    cls = closures_of(F, b)
    me = find_calls(body, "map_err")
    okp, oks, okk = False, False, False
    offs, why = [], ""
    nx = [bb for bb, t in body.calls() if call_matches(body.expr_of_call(t, 0, bb), "Iterator::next", "next")]
    if len(cls) == 1 and len(me) == 1 and len(nx) == 1:
        cb = Body(cls[0])
        offs = [ab(r) for r in the_return(cb)]
        caps = strip(body.expr_of_call(me[0][1], 0, me[0][0])[3][1])
        capv = [ab(canon(x)) for x in caps[2]] if caps[0] == "agg" else []
        ipos = [i for i, c in enumerate(capv) if c.endswith(".1") and "DataIter" in c and "is_some" not in c]
        iseal = [i for i, c in enumerate(capv) if c.startswith("core::option::Option::<T>::is_some(") and c.endswith(".0)") and "DataIter" in c]
        okpos = False
        if len(ipos) == 1:
            # pos is read before next()
            for bb, i, s_ in body.assigns():
                if not s_["l"]["p"] and body.local_name(s_["l"]["v"]) == "pos":
                    okpos = body.dominates(bb, nx[0]) and ab(canon(body.expr_of_rvalue(s_["r"]))) == capv[ipos[0]]
            # ... and the captured value is that early read, not a fresh read of the walker's position after the step
            cap_ops = None
            for bb_, i_, s_ in body.assigns():
                r_ = s_["r"]
                if "agg" in r_ and isinstance(r_["agg"], dict) and "closure" in str(r_["agg"]) and len(r_.get("ops", [])) == len(capv):
                    cap_ops = r_["ops"]
            rp = read_points(body, cap_ops[ipos[0]]) if cap_ops else None
            # (a statement in the block that ends with the call precedes the call; a read after the step never dominates the call, also inside the loop)
            early = bool(rp) and all(isinstance(x, int) and body.dominates(x, nx[0]) for x in rp)
            okpos = okpos and early
            offc = [t for bb, t in cb.calls() if call_matches(cb.expr_of_call(t, 0, bb), "Error::offset")]
            okoff = False
            if len(offc) == 1 and len(offs) == 1:
                oe = cb.expr_of_call(offc[0], 0, [bb for bb, t in cb.calls() if t is offc[0]][0])
                a0, a1 = ab(canon(oe[3][0])), ab(canon(oe[3][1]))
                okoff = a1 == "Add($1.%d, OFFSET_SIZE)" % ipos[0] and "$e" in a0 and offs[0].startswith("flatty_base::error::Error::offset(")
            okp = okpos and okoff
        if len(ipos) == 1 and len(iseal) == 1:
            # is_some(data) is evaluated after next()
            isc = [bb for bb, t in body.calls() if call_matches(body.expr_of_call(t, 0, bb), "is_some")]
            oks = len(isc) == 1 and body.dominates(nx[0], isc[0]) and isc[0] != nx[0]
            # per path of the mapper: the kind is rewritten to InvalidData exactly when the error is InsufficientSize AND the item is sealed;
            # on every other path no error kind is constructed (the original kind passes through)
            ek = F.adts.get("flatty_base::error::ErrorKind")
            d0 = ek and [v["name"] for v in ek["variants"] if int(v["discr"]) == 0] == ["InsufficientSize"]
            okk, npth, nrew = bool(d0), 0, 0
            for pth in cb.paths(0):
                if cb.term(pth[-1]) != "return":
                    continue
                npth += 1
                insuf, sealed, built = None, None, set()
                for ev in events(cb, pth):
                    if ev.kind == "branch":
                        c = ev.a
                        cc = ab(canon(c))
                        if cc == "$1.%d" % iseal[0]:
                            sealed = bool_taken(ev)
                        elif cc == "discr($e.0)":
                            insuf = (ev.b == 0) if isinstance(ev.b, int) else (False if ev.b and ev.b[0] == "not" and 0 in ev.b[1] else None)
                        elif c[0] == "call" and ("PartialEq>::eq" in cc or "PartialEq>::ne" in cc) and "$e.0" in cc and "InsufficientSize{}" in cc:
                            bt = bool_taken(ev)
                            if bt is not None:
                                insuf = bt if "PartialEq>::eq" in cc else (not bt)
                    elif ev.kind == "assign":
                        r_ = ev.b
                        if "agg" in r_ and isinstance(r_["agg"], dict) and r_["agg"].get("adt") == "flatty_base::error::ErrorKind":
                            built.add(r_["agg"]["vname"])
                if insuf is True and sealed is True:
                    nrew += 1
                    if built != {"InvalidData"}:
                        okk = False
                        why = " -- a sealed item's InsufficientSize is passed on (path %s builds %s)" % (pth[:8], sorted(built))
                elif built:
                    okk = False
                    why = " -- an error kind is rewritten outside `sealed and InsufficientSize` (path %s builds %s)" % (pth[:8], sorted(built))
            okk = okk and nrew >= 1
            if not nrew and not why:
                why = " -- no path rewrites the kind under `sealed and kind == InsufficientSize`"
        else:
            why = " -- captures %s" % [c[:60] for c in capv]
    else:
        why = " -- expected one error-mapping closure, one map_err and one next() (%d, %d, %d)" % (len(cls), len(me), len(nx))
    R.ob("E1.err-offset", fn, "item", okp,
         "%s: an item's error is shifted by the position of its slot (read before the step) + OFFSET_SIZE%s" % (fn, "" if okp else " -- found %s%s" % (offs, why)),
         where=b["span"])
    if R.pid in ("C06", "C07", "C08", "C09", "C10"):   # classification of errors (framing contract: the receive loops wait for more bytes exactly on InsufficientSize); positions and accepted sets are not affected by it
      R.ob("K1.sealed-shortfall", fn, "item-kind", oks and okk,
           "%s: the validation error of a sealed (not last) item is never InsufficientSize: its extent is fixed, so a shortfall inside it is reported as "
           "InvalidData (sealed = the walker still holds data after the step); every other kind, and the open last item's shortfall, pass unchanged%s" % (fn, why),
           where=b["span"])


# ------------------------------------------------------------------------------------ flex chain: reader

TAKE = "(TryO(core::option::Option::<T>::take($self.0)) as Continue).0"
NEXTV = "(FlatValidate::from_bytes(iter::Data::bytes(%s)) as Ok).0" % TAKE
LEN = "slice::len(iter::Data::bytes(%s))" % TAKE


def flex_reader(F, R):
    b = one(F, krate=FC, trait="core::iter::traits::iterator::Iterator", method="next", self_adt="flatty_containers::flex::DataIter")
    body = Body(b)
    fn = "flex::DataIter::next"
    R.count("functions_analysed")
    # slot read: L::from_bytes(data.bytes()); its error shifted by self.pos
    fb = [c for c in find_calls(body, "FlatValidate::from_bytes") if c[1]["call"]["args"] == ["L"]]
    ok = len(fb) == 1 and ab(canon(body.expr_of_call(fb[0][1], 0, fb[0][0]))) == "FlatValidate::from_bytes(iter::Data::bytes(%s))" % TAKE
    R.ob("P1.slot-read", fn, "L::from_bytes", ok, "%s: the offset slot is read (and validated) as L at the start of the remaining data" % fn, where=b["span"])
    rs = [r for _, r in ret_stores(body)]
    want_err = "Some{Err{flatty_base::error::Error::offset((FlatValidate::from_bytes(iter::Data::bytes(%s)) as Err).0, $self.1)}}" % TAKE
    R.ob("E1.err-offset", fn, "slot", want_err in rs, "%s: a slot error is shifted by the slot position" % fn, where=b["span"])
    # protocol: next == 0 -> None ; next == MAX -> last
    sw = {}
    for sbb, st in body.switches():
        c = ab(canon(body.expr_of_operand(st["switch"])))
        sw.setdefault(c, []).append((sbb, st))
    zero_c = "core::cmp::PartialEq::eq(%s, ZERO)" % NEXTV
    max_c = "core::cmp::PartialEq::eq(%s, MAX)" % NEXTV
    okz = zero_c in sw
    if okz:
        sbb, st = sw[zero_c][0]
        ft = [b_ for v, b_ in st["targets"] if int(v) == 0][0]
        tr = [r for _, r in ret_stores(body, body.reachable_from(st["otherwise"], avoid=[ft]))]
        okz = tr == ["None{}"]
    R.ob("P2.zero-terminates", fn, "next==0", okz, "%s: a zero offset ends the chain (and nothing else does silently)" % fn, where=b["span"])
    nones = [bb_ for bb_, r in ret_stores(body) if r == "None{}"]
    resid = [bb_ for bb_, t in body.calls() if t.get("dest") and t["dest"]["v"] == 0 and "FromResidual" in (t["call"].get("def") or "")]
    R.ob("P2.only-zero-terminates", fn, "None-exits", len(nones) == 1 and len(resid) == 1,
         "%s: the walk ends (returns None) only at a zero offset or when it was already exhausted; a missing or unreadable slot is an error, "
         "never a silent end (found %d None stores, %d exhaustion exits)" % (fn, len(nones), len(resid)), where=b["span"])
    okm = max_c in sw
    # item_len: len when last else n with n <= len, else InsufficientSize at pos
    defs = []
    for bb, i, s in body.assigns():
        if not s["l"]["p"] and body.local_name(s["l"]["v"]) == "item_len":
            defs.append((bb, ab(canon(body.expr_of_rvalue(s["r"])))))
    n_e = "(num_traits::cast::ToPrimitive::to_usize(%s) as Some).0" % NEXTV
    okd = sorted(d for _, d in defs) == sorted([LEN, n_e])
    if okm and okd:
        sbb, st = sw[max_c][0]
        ft = [b_ for v, b_ in st["targets"] if int(v) == 0][0]
        for bb_, d in defs:
            if d == LEN:
                okd = okd and body.edge_dominates((sbb, st["otherwise"]), bb_)
            else:
                okd = okd and body.edge_dominates((sbb, ft), bb_)
                # and under n <= len
                g = [(x, n, tt, ff) for x, n, tt, ff in switch_facts(body) if n == ("Le", n_e, LEN)]
                okd = okd and len(g) == 1 and body.edge_dominates((g[0][0], g[0][2]), bb_)
    R.ob("P3.last-marker", fn, "next==MAX", okm and okd,
         "%s: L::MAX marks the last item, which owns all remaining bytes; any other offset n is the item's extent only if n <= remaining length" % fn,
         where=b["span"])
    # P3b: the extent of a sealed item is a multiple of the vector's ALIGN (so the next slot - the terminator too - is aligned and
    # size()'s "one more full slot" stays inside the bytes): the step over a sealed item (the split at item_len) is taken only on the
    # `item_len % ALIGN == 0` edge, the other edge is a content error at the slot
    steps = [(bb_, t_) for bb_, t_ in find_calls(body, "Data::split") if ab(canon(body.expr_of_call(t_, 0, bb_)[3][1])) == "%item_len"]
    okal, why_al = False, ""
    if len(steps) == 1:
        for sb2, st2 in body.switches():
            cnd = body.expr_of_operand(st2["switch"])
            for truth in (True, False):
                n_ = norm_cmp(cnd, truth)
                if not n_ or n_[0] != "Eq":
                    continue
                sides = {ab(canon(n_[1])), ab(canon(n_[2]))}
                if sides == {"0", "Rem(%item_len, ALIGN)"}:
                    ft2 = [b_ for v, b_ in st2["targets"] if int(v) == 0]
                    if not ft2:
                        continue
                    eq_t, ne_t = (st2["otherwise"], ft2[0]) if truth else (ft2[0], st2["otherwise"])
                    errs = [r for _, r in ret_stores(body, body.reachable_from(ne_t, avoid=[eq_t]))]
                    if errs != ["Some{Err{Error{InvalidData{}, $self.1}}}"]:
                        continue
                    # every FEASIBLE path to the step passes the == 0 edge (the check sits under `!last`, the step under a second `!last`:
                    # a path that answers the same condition differently at the two tests does not exist)
                    good, nfeas = True, 0
                    for pth in body.paths(0, stop=[steps[0][0]]):
                        if pth[-1] != steps[0][0]:
                            continue
                        seen, feasible = {}, True
                        for ev in events(body, pth):
                            if ev.kind == "branch":
                                bt = bool_taken(ev)
                                if bt is None:
                                    continue
                                key = ab(canon(ev.a))
                                if key in seen and seen[key] != bt:
                                    feasible = False
                                seen[key] = bt
                        if not feasible:
                            continue
                        nfeas += 1
                        if not any(pth[i_] == sb2 and pth[i_ + 1] == eq_t for i_ in range(len(pth) - 1)):
                            good = False
                    if good and nfeas:
                        okal = True
        if not okal:
            why_al = " -- no `item_len % ALIGN == 0` edge dominates the step over a sealed item"
    else:
        why_al = " -- expected one split at item_len (found %d)" % len(steps)
    R.ob("P3.sealed-extent-aligned", fn, "item_len % ALIGN", okal,
         "%s: a sealed item's extent must be a multiple of the vector's alignment, anything else is a content error at its slot "
         "(an unaligned extent would put the next slot / the terminator at an unaligned position: size() then counts bytes that are not there)%s" % (fn, why_al),
         where=b["span"])
    R.ob("K1.errkind", fn, "offset-beyond-slice", "Some{Err{Error{InsufficientSize{}, $self.1}}}" in rs,
         "%s: an offset beyond the bytes present is InsufficientSize (more input can complete it)" % fn, where=b["span"])
    # payload_offset > item_len : kind depends on last
    kinds = []
    for bb, i, s in body.assigns():
        r = s["r"]
        if "agg" in r and isinstance(r["agg"], dict) and r["agg"].get("adt") == "flatty_base::error::ErrorKind":
            kinds.append((bb, r["agg"]["vname"]))
    okk = False
    g = [(x, n, tt, ff) for x, n, tt, ff in switch_facts(body) if n == ("Lt", "%item_len", "OFFSET_SIZE")]
    if len(g) == 1 and max_c in sw:
        gb, _, gt, gf = g[0]
        # inside the true region a second test on `last` chooses the kind
        inner = [(sbb, st) for sbb, st in sw[max_c] if sbb in body.reachable_from(gt, avoid=[gf])]
        if len(inner) == 1:
            sbb, st = inner[0]
            ft = [b_ for v, b_ in st["targets"] if int(v) == 0][0]
            k_last = [k for bb_, k in kinds if body.edge_dominates((sbb, st["otherwise"]), bb_)]
            k_mid = [k for bb_, k in kinds if body.edge_dominates((sbb, ft), bb_)]
            okk = k_last == ["InsufficientSize"] and k_mid == ["InvalidData"]
    R.ob("K1.errkind", fn, "offset-smaller-than-slot", okk,
         "%s: an item shorter than its own slot is InsufficientSize only for the last item (more bytes can help); for a sealed item it is InvalidData" % fn,
         where=b["span"])
    # splits
    sp = find_calls(body, "Data::split")
    exps = sorted(ab(canon(body.expr_of_call(t, 0, bb))) for bb, t in sp)
    oks = exps == sorted(["iter::Data::split(%s, %%item_len)" % TAKE, "iter::Data::split(%data, OFFSET_SIZE)"])
    # continuation: self.data = Some(second part), self.pos += item_len, only when not last
    cont = []
    for bb, i, s in body.assigns():
        if s["l"]["p"] and s["l"]["v"] == 1:
            cont.append((bb, ab(canon(body.expr_of_place(s["l"]))), ab(canon(body.expr_of_rvalue(s["r"])))))
    want_cont = sorted([("$self.0", "Some{iter::Data::split(%s, %%item_len).1}" % TAKE), ("$self.1", "Add($self.1, %item_len)")])
    okc = sorted(set((l, r) for _, l, r in cont)) == want_cont
    if okc and max_c in sw:
        last_sw = [(sbb, st) for sbb, st in sw[max_c]]
        okc = all(any(body.edge_dominates((sbb, [b_ for v, b_ in st["targets"] if int(v) == 0][0]), bb_) for sbb, st in last_sw) for bb_, _, _ in cont)
    R.ob("P4.step", fn, "advance", oks and okc,
         "%s: a sealed item is cut at its extent, the walk continues behind it and pos advances by the extent; the payload starts OFFSET_SIZE into the item%s" % (
             fn, "" if oks and okc else " -- found splits %s, stores %s" % (exps, cont)), where=b["span"])
    okv = "Some{Ok{iter::Data::value(iter::Data::split(%data, OFFSET_SIZE).1)}}" in rs
    R.ob("P4.payload", fn, "payload", okv, "%s: the item handed out is the payload part" % fn, where=b["span"])


# ------------------------------------------------------------------------------------ flex writers

def slot_stores(body):
    """Calls that store an L value into an offset slot: Emplacer::emplace::<L, L> / emplace_unchecked::<L, L> or ptr::write of an L."""
    out = []
    for bb, t in body.calls():
        c = t["call"]
        d = c.get("def", "")
        if d.endswith("Emplacer::emplace") or d.endswith("Emplacer::emplace_unchecked"):
            if c["args"] and c["args"][0] == "L":
                e = body.expr_of_call(t, 0, bb)
                out.append((bb, t, ab(canon(e[3][0])), ab(canon(e[3][1]))))
        elif d.endswith("::write") and "mut_ptr" in d and c["args"] == ["L"]:
            e = body.expr_of_call(t, 0, bb)
            out.append((bb, t, ab(canon(e[3][1])), ab(canon(e[3][0]))))
    return out


def err_exits_after(body, start_bb, slot_bbs):
    """Err exits reachable from start_bb that do not originate in the failure edge of a slot store."""
    bad = []
    reach = body.reachable_from(start_bb)
    for bb in reach:
        for s in body.stmts(bb):
            if s["l"] and s["l"]["v"] == 0 and not s["l"]["p"]:
                r = ab(canon(body.expr_of_rvalue(s["r"])))
                if r.startswith("Err{"):
                    bad.append((bb, r[:80]))
        t = body.term(bb)
        if isinstance(t, dict) and "call" in t and t.get("dest") and t["dest"]["v"] == 0 and not t["dest"]["p"]:
            e = body.expr_of_call(t, 0, bb)
            if call_matches(e, "from_residual"):
                # which Try::branch does the residual come from?
                src = strip(e[3][0])
                while src[0] in ("downcast", "field"):
                    src = strip(src[1])
                origin = None
                if src[0] == "call" and call_matches(src, "Try::branch"):
                    inner = strip(src[3][0])
                    while inner[0] == "call" and call_matches(inner, "map_err", "ok_or"):
                        inner = strip(inner[3][0])
                    if inner[0] == "call":
                        origin = inner[5]
                if origin not in slot_bbs:
                    bad.append((bb, "? of %s" % (short(canon(src))[:80])))
    return bad


def flex_writers(F, R):
    # ---- push
    b = one(F, krate=FC, def_re=r"^flatty_containers::flex::FlexVec::<T, L>::push$")
    body = Body(b)
    fn = "FlexVec::push"
    R.count("functions_analysed")
    ss = slot_stores(body)
    slot_bbs = {bb for bb, _, _, _ in ss}
    vals = sorted(v for _, _, v, _ in ss)
    R.ob("P5.push-slot-values", fn, "stores", vals == sorted(["MAX", "(%seal as Some).0.1"]),
         "%s: the only slot stores are L::MAX into the new slot and the sealed extent into the previous last slot%s" % (fn, "" if vals == sorted(["MAX", "(%seal as Some).0.1"]) else " -- found %s" % vals),
         where=b["span"])
    bad = []
    for bb, t, v, dst in ss:
        if t["target"] is not None:
            bad += err_exits_after(body, t["target"], slot_bbs)
    R.ob("N1.no-effect-before-failure", fn, "slot-stores", not bad and len(ss) >= 2,
         "%s: no offset slot is written on any path that can still fail (refused push leaves the chain as it was)%s" % (fn, "" if not bad else " -- Err exits after a slot store: %s" % bad[:3]),
         where=b["span"])
    # item emplacement: into the payload of the free tail, before the slot stores
    ie = [(bb, t) for bb, t in find_calls(body, "Emplacer::emplace") if t["call"]["args"] and t["call"]["args"][0] == "E"]
    ok = len(ie) == 1
    if ok:
        e = ab(canon(body.expr_of_call(ie[0][1], 0, ie[0][0])))
        ok = e == "Emplacer::emplace($emplacer, slice::split_at_mut(slice::split_at_mut($self.1, %pos).1, OFFSET_SIZE).1)"
        ok = ok and all(body.dominates(ie[0][0], bb) for bb in slot_bbs)
    R.ob("P5.push-item", fn, "item", ok, "%s: the item is emplaced into the payload behind the new slot in the free tail, before any slot is written" % fn, where=b["span"])
    # destinations
    dsts = sorted(d for _, _, _, d in ss)
    want_d = sorted(["slice::split_at_mut(slice::split_at_mut($self.1, %pos).1, OFFSET_SIZE).0",
                     "core::slice::index::<impl core::ops::index::IndexMut<I> for [T]>::index_mut(slice::split_at_mut($self.1, %pos).0, RangeFrom{(%seal as Some).0.0})"])
    R.ob("P5.push-slots", fn, "destinations", dsts == want_d, "%s: MAX goes to the new slot at pos, the sealed extent to the slot of the previous last item%s" % (
        fn, "" if dsts == want_d else " -- found %s" % dsts), where=b["span"])
    # room check before writing: len(free) < OFFSET_SIZE -> Err(InsufficientSize, pos)
    g = [(x, n, tt, ff) for x, n, tt, ff in switch_facts(body) if n == ("Lt", "slice::len(slice::split_at_mut($self.1, %pos).1)", "OFFSET_SIZE")]
    ok = len(g) == 1 and ie and body.edge_dominates((g[0][0], g[0][3]), ie[0][0]) and \
        [r for _, r in ret_stores(body, body.reachable_from(g[0][2], avoid=[g[0][3]]))] == ["Err{Error{InsufficientSize{}, %pos}}"]
    R.ob("K1.errkind", fn, "no-room", bool(ok), "%s: no room for another slot is InsufficientSize, checked before anything is written" % fn, where=b["span"])
    # the read-only walk ends at the open (L::MAX) item: behind it lies the free tail, whose bytes are not part of the value (a slot read
    # there would make push depend on leftovers of refused operations)
    seal_bbs_ = [bb_ for bb_, i_, s_ in body.assigns() if not s_["l"]["p"] and body.local_name(s_["l"]["v"]) == "seal"
                 and ab(canon(body.expr_of_rvalue(s_["r"]))).startswith("Some{")]
    reads_ = [bb_ for bb_, t_ in find_calls(body, "FlatValidate::from_bytes") if t_["call"]["args"] == ["L"]]
    ok_w = len(seal_bbs_) == 1 and len(reads_) == 1 and reads_[0] not in body.reachable_from(seal_bbs_[0])
    R.ob("P5.push-walk-ends", fn, "open-item", ok_w,
         "%s: after the open last item was measured no further offset slot is read (the walk never enters the free tail)" % fn, where=b["span"])
    # sealed extent formula + guard
    seal_formula(F, R, b, body, fn)
    # ---- FromIterator
    b = one(F, krate=FC, trait=EMP, method="emplace_unchecked", self_adt="flatty_containers::flex::FromIterator")
    body = Body(b)
    fn = "flex::FromIterator::emplace_unchecked"
    R.count("functions_analysed")
    ss = slot_stores(body)
    vals = sorted(v for _, _, v, _ in ss)
    want_v = sorted(["ZERO", "MAX", "(core::option::Option::<T>::take(%prev) as Some).0.1"])
    if "(%prev_sealed as Some).0" in vals:
        # lazily sealed form: prev_sealed is None or the checked conversion of the previous item's extent (see F4.extent / P8)
        st_ps = set()
        for bb_, i_, s_ in body.assigns():
            if not s_["l"]["p"] and body.local_name(s_["l"]["v"]) == "prev_sealed":
                st_ps.add(ab(canon(body.expr_of_rvalue(s_["r"]))))
        good = len(st_ps) == 2 and "None{}" in st_ps and any(
            x.startswith("Some{(Try(core::option::Option::<T>::ok_or(core::option::Option::<T>::and_then(num_traits::cast::FromPrimitive::from_usize((%prev as Some).0.1), closure{})")
            and x.endswith(" as Continue).0}") for x in st_ps)
        if good:
            want_v = sorted(["ZERO", "MAX", "(%prev_sealed as Some).0"])
    R.ob("P6.fromiter-slot-values", fn, "stores", vals == want_v,
         "%s: slot stores are the initial zero terminator, L::MAX for the newest item and the sealed extent of its predecessor%s" % (fn, "" if vals == want_v else " -- found %s" % vals),
         where=b["span"])
    ie = [(bb, t) for bb, t in find_calls(body, "Emplacer::emplace") if t["call"]["args"] and t["call"]["args"][0] == "E"]
    iu = [(bb, t) for bb, t in find_calls(body, "Emplacer::emplace_unchecked") if t["call"]["args"] and t["call"]["args"][0] == "E"]
    ok = len(ie) == 1 and not iu and ab(canon(body.expr_of_call(ie[0][1], 0, ie[0][0])[3][1])) == "slice::split_at_mut(%data, OFFSET_SIZE).1"
    R.ob("P6.fromiter-item", fn, "item", ok,
         "%s: every item goes through the checked Emplacer::emplace (alignment and MIN_SIZE gate) on the payload behind its slot" % fn, where=b["span"])
    # R3: the zero terminator is stored before anything else can fail
    z = [bb for bb, _, v, _ in ss if v == "ZERO"]
    others = [bb for bb, t in body.calls() if bb not in z and t["call"].get("def", "").endswith(("Emplacer::emplace", "Iterator::next"))]
    ok = len(z) == 1 and all(body.dominates(z[0], o) for o in others)
    R.ob("R3.reset-first", fn, "zero-first", ok, "%s: the vector is reset to the empty state before the first item is attempted" % fn, where=b["span"])
    if R.pid == "C18":
        # the other clause of C18 ("too little room: left unchanged") cannot hold for a source of unknown length: the reset comes first by design
        errs_after_reset = [bb for bb, r in ret_stores(body) if r.startswith("Err{") and z and body.dominates(z[0], bb)]
        R.ob("R5.unchanged-on-refusal", "FromIterator::emplace_unchecked", "modifies-before-knowing", not errs_after_reset,
             "vec::/flex::FromIterator emplacers refuse content that does not fit only after the target was reset and partly refilled (one pass over a source of "
             "unknown length): a refused assign_in_place leaves a valid but CHANGED target", where=b["span"])
    # between MAX store of item k and sealing of k-1 nothing can fail except slot stores
    slot_bbs = {bb for bb, _, _, _ in ss}
    bad = []
    for bb, t, v, dst in ss:
        if v == "MAX" and t["target"] is not None:
            # until the predecessor is sealed
            seal_bbs = [sb for sb, _, v2, _ in ss if "prev" in v2]
            loop_bbs = [x for x, t2 in body.calls() if t2["call"].get("def", "").endswith("Iterator::next")]
            reach = body.reachable_from(t["target"], avoid=seal_bbs + loop_bbs)
            for x in reach:
                tt = body.term(x)
                if isinstance(tt, dict) and "call" in tt and tt["call"].get("def", "").endswith("Emplacer::emplace") and tt["call"]["args"][0] != "L":
                    bad.append(x)
    # the predecessor is sealed only once the new item exists: sealing earlier would point its slot at a successor slot that is never
    # written when the new item's emplacer fails (the chain would run into stale bytes)
    seal_bbs = [sb for sb, _, v2, _ in ss if "prev" in v2]
    ok_sa = len(ie) == 1 and bool(seal_bbs) and all(body.dominates(ie[0][0], sb) for sb in seal_bbs)
    if ok_sa:
        # ... on the success edge of the item emplacer
        okedge = False
        for sbb, st in body.switches():
            c = body.expr_of_operand(st["switch"])
            if c[0] == "discr" and "Emplacer::emplace(" in ab(canon(c)) and "Iterator::next" in ab(canon(c)):
                cont = [tb for v, tb in st["targets"] if int(v) == 0]
                if cont and all(body.edge_dominates((sbb, cont[0]), sb) for sb in seal_bbs):
                    okedge = True
        ok_sa = okedge
    R.ob("R3.seal-after-item", fn, "order", ok_sa,
         "%s: the predecessor's slot is sealed only after the new item was built successfully (a failing item leaves the predecessor open: "
         "the chain never points at a slot that was not written)" % fn, where=b["span"])
    # the working range is the view's own bytes (the slice floored to the vector's ALIGN), as size() / validate / push see it: an item may
    # not reach into the partial tail behind the last multiple of ALIGN
    dd = set()
    for bb_, i_, s_ in body.assigns():
        if not s_["l"]["p"] and body.local_name(s_["l"]["v"]) == "data":
            dd.add(ab(canon(body.expr_of_rvalue(s_["r"]))))
    inits = [x for x in dd if "%data" not in x]
    ok_w = len(inits) == 1 and (inits[0] == "FlatUnsized::as_mut_bytes(THISM)" or
                                re.fullmatch(r".*index_mut\(\$bytes, RangeTo\{utils::floor_mul\(slice::len\(\$bytes\), ALIGN\)\}\)", inits[0]) is not None)
    R.ob("P6.fromiter-window", fn, "range", ok_w,
         "%s: items are laid out inside the bytes of the view made from the slice (length floored to the vector's ALIGN), not the raw slice%s" % (
             fn, "" if ok_w else " -- found %s" % sorted(inits)), where=b["span"])
    # per-item room gate: exactly `len(data) < OFFSET_SIZE` is refused (InsufficientSize at the item's position) before the slot is split off;
    # `<=` would refuse an item that needs no payload bytes, a weaker test lets split_at_mut panic when 0 < len < OFFSET_SIZE
    g_ = [(x, n_, tt, ff) for x, n_, tt, ff in switch_facts(body) if n_ == ("Lt", "slice::len(%data)", "OFFSET_SIZE")]
    sp_ = [bb_ for bb_, t_ in find_calls(body, "split_at_mut") if ab(canon(body.expr_of_call(t_, 0, bb_))) == "slice::split_at_mut(%data, OFFSET_SIZE)"]
    ok_g = len(g_) == 1 and len(sp_) == 1 and body.edge_dominates((g_[0][0], g_[0][3]), sp_[0]) and \
        [r for _, r in ret_stores(body, body.reachable_from(g_[0][2], avoid=[g_[0][3]]))] == ["Err{Error{InsufficientSize{}, %pos}}"]
    R.ob("K1.fromiter-room", fn, "slot-gate", bool(ok_g),
         "%s: an item is refused (InsufficientSize at its position) exactly when fewer than OFFSET_SIZE bytes are left, and the slot is split off only behind that test" % fn,
         where=b["span"])
    R.ob("R3.mark-then-seal", fn, "order", not bad and len(ss) == 3,
         "%s: the newest item is marked as last and its predecessor sealed back to back (no fallible step in between)" % fn, where=b["span"])
    seal_formula(F, R, b, body, fn)
    # item payload advance: data = payload.split_at_mut(ceil_mul(size, ALIGN)).1
    adv = [ab(canon(body.expr_of_call(t, 0, bb))) for bb, t in find_calls(body, "split_at_mut")]
    ok = any(re.match(r"^slice::split_at_mut\(slice::split_at_mut\(%data, OFFSET_SIZE\)\.1, utils::ceil_mul\(FlatBase::size\(.*\), ALIGN\)\)$", a) for a in adv)
    R.ob("F4.fromiter-stride", fn, "stride", ok, "%s: the next slot follows the item payload rounded up to the vector's ALIGN" % fn, where=b["span"])
    # ---- truncate / pop / clear
    b = one(F, krate=FC, def_re=r"^flatty_containers::flex::FlexVec::<T, L>::truncate$")
    body = Body(b)
    fn = "FlexVec::truncate"
    R.count("functions_analysed")
    ss = slot_stores(body)
    ok = len(ss) == 1 and ss[0][2] == "ZERO" and ss[0][3] == "(fc::flex::FlexVec::<T, L>::bytes_mut_iter($self).0 as Some).0"
    R.ob("T1.truncate-terminator", fn, "store", ok,
         "%s: the only store is a zero terminator into the slot the cursor stands on, and only if such a slot exists%s" % (fn, "" if ok else " -- found %s" % [(v, d) for _, _, v, d in ss]),
         where=b["span"])
    if R.pid == "C17":
        # one encoding per content: after truncate/pop the last remaining item would have to be re-opened (L::MAX in its own slot); the code
        # terminates the chain behind it instead, so the same content has an "open" and a "sealed + terminator" image (sizes differ)
        reopen = any(v == "MAX" for _, _, v, _ in ss)
        R.ob("P9.flex-one-encoding", fn, "terminates-instead-of-reopening", reopen and not any(v == "ZERO" for _, _, v, _ in ss),
             "FlexVec::truncate/pop end the chain with a zero slot behind the last remaining item instead of re-opening that item: the same sequence has two "
             "encodings (open last item after push / FromIterator, sealed item + terminator after pop / truncate) with different size()", where=b["span"])
    nth = find_calls(body, "Iterator::nth")
    okc = len(nth) == 1 and ab(canon(body.expr_of_call(nth[0][1], 0, nth[0][0]))) == "core::iter::traits::iterator::Iterator::nth(fc::flex::FlexVec::<T, L>::bytes_mut_iter($self), Sub($len, 1))"
    if okc:
        g = [(x, n, tt, ff) for x, n, tt, ff in switch_facts(body) if n == ("Lt", "0", "$len")]
        okc = len(g) == 1 and body.edge_dominates((g[0][0], g[0][2]), nth[0][0]) and ss and body.dominates(g[0][0], ss[0][0]) \
            and ss[0][0] in body.reachable_from(g[0][3], avoid=[nth[0][0]])
    R.ob("T1.truncate-cursor", fn, "cursor", okc,
         "%s: the cursor steps over exactly len items (nth(len - 1) when len > 0, none when len == 0) before the terminator is written: the first min(len, n) items survive" % fn,
         where=b["span"])
    dr = find_calls(body, "Iterator::skip")
    okd = len(dr) == 1 and ab(canon(body.expr_of_call(dr[0][1], 0, dr[0][0]))) == "core::iter::traits::iterator::Iterator::skip(fc::flex::FlexVec::<T, L>::iter_mut($self), $len)"
    R.ob("T1.truncate-drops", fn, "drop", okd, "%s: exactly the items from index len on are dropped" % fn, where=b["span"])
    b = one(F, krate=FC, def_re=r"^flatty_containers::flex::FlexVec::<T, L>::pop$")
    body = Body(b)
    tr = find_calls(body, "FlexVec::<T, L>::truncate")
    ok = len(tr) == 1 and ab(canon(body.expr_of_call(tr[0][1], 0, tr[0][0]))) == "fc::flex::FlexVec::<T, L>::truncate($self, Sub(fc::flex::FlexVec::<T, L>::len($self), 1))"
    if ok:
        g = [(x, n, tt, ff) for x, n, tt, ff in switch_facts(body) if n == ("Lt", "0", "fc::flex::FlexVec::<T, L>::len($self)")]
        ok = len(g) == 1 and body.edge_dominates((g[0][0], g[0][2]), tr[0][0]) and \
            [r for _, r in ret_stores(body, body.reachable_from(g[0][3], avoid=[g[0][2]]))] == ["Err{EmptyError{}}"]
    R.ob("T2.pop", "FlexVec::pop", "truncate(len-1)", ok, "FlexVec::pop: removes exactly the last item (truncate(len() - 1)) or reports EmptyError", where=b["span"])
    b = one(F, krate=FC, def_re=r"^flatty_containers::flex::FlexVec::<T, L>::clear$")
    body = Body(b)
    tr = find_calls(body, "FlexVec::<T, L>::truncate")
    ok = len(tr) == 1 and ab(canon(body.expr_of_call(tr[0][1], 0, tr[0][0]))) == "fc::flex::FlexVec::<T, L>::truncate($self, 0)"
    R.ob("T3.clear", "FlexVec::clear", "truncate(0)", ok, "FlexVec::clear: truncate(0)", where=b["span"])
    # who may construct unchecked data views
    sites = set()
    for bj in F.poly(krate=FC):
        bd = Body(bj)
        if find_calls(bd, "UncheckedRefData::<'a>::new", "UncheckedMutData::<'a>::new"):
            sites.add(bj["def"])
    R.ob("P7.unchecked-views", "flatty_containers", "callers", sites == {"flatty_containers::flex::FlexVec::<T, L>::iter", "flatty_containers::flex::FlexVec::<T, L>::iter_mut"},
         "unchecked item views are created only by FlexVec::iter / iter_mut on an existing (valid) &self (found %s)" % sorted(s.split("::")[-1] for s in sites),
         where="containers/src/flex.rs")


def seal_formula(F, R, b, body, fn):
    fu = find_calls(body, "FromPrimitive::from_usize")
    ok = len(fu) == 1
    if ok:
        e = ab(canon(body.expr_of_call(fu[0][1], 0, fu[0][0])))
        ok = re.match(r"^num_traits::cast::FromPrimitive::from_usize\(Add\(OFFSET_SIZE, utils::ceil_mul\(FlatBase::size\(.*\), ALIGN\)\)\)$", e) is not None
        if not ok and e == "num_traits::cast::FromPrimitive::from_usize((%prev as Some).0.1)":
            # lazily sealed: the extent of the previous item was stored as a usize next to its slot and is converted when a successor arrives
            st_prev = set()
            for bb_, i_, s_ in body.assigns():
                if not s_["l"]["p"] and body.local_name(s_["l"]["v"]) == "prev":
                    st_prev.add(ab(canon(body.expr_of_rvalue(s_["r"]))))
            somes = [x for x in st_prev if x.startswith("Some{")]
            ok = len(somes) == 1 and st_prev - set(somes) <= {"None{}"} and \
                re.match(r"^Some\{tuple\{.*, Add\(OFFSET_SIZE, utils::ceil_mul\(FlatBase::size\(.*\), ALIGN\)\)(, %pos)?\}\}$", somes[0]) is not None
    if fn.startswith("flex::FromIterator"):
        # the last item stays open (marked L::MAX) and needs no stored extent: only an item that gets a successor is converted to L, so a
        # single / last item whose extent does not fit L is accepted exactly as `push` accepts it (C03 / C15: content that fits is not refused)
        lazy = False
        if len(fu) == 1 and ab(canon(body.expr_of_call(fu[0][1], 0, fu[0][0]))) == "num_traits::cast::FromPrimitive::from_usize((%prev as Some).0.1)":
            for sb2, st2 in body.switches():
                if ab(canon(body.expr_of_operand(st2["switch"]))) == "discr(%prev)":
                    some_t = [tb for v, tb in st2["targets"] if int(v) == 1]
                    if some_t and body.edge_dominates((sb2, some_t[0]), fu[0][0]):
                        lazy = True
        R.ob("P8.last-item-open", fn, "lazy-seal", lazy,
             "%s: an item's extent is converted to the offset type only when a successor arrives (under `prev is Some`); the last item is never "
             "refused because its extent does not fit L" % fn, where=b["span"])
    R.ob("F4.extent", fn, "sealed-extent", ok,
         "%s: a sealed item's stored extent is OFFSET_SIZE + ceil_mul(item.size(), ALIGN of the vector)" % fn, where=b["span"])
    cl = [c for c in closures_of(F, b) if any("PartialOrd" in str(t) for _, t in Body(c).calls())]
    okg = False
    for c in cl:
        cb = Body(c)
        rs = sorted(ab(r) for r in the_return(cb))
        sw = [(x, n, tt, ff) for x, n, tt, ff in []]
        conds = [ab(canon(cb.expr_of_operand(st["switch"]))) for _, st in cb.switches()]
        if rs == ["None{}", "Some{$o}"] and conds == ["core::cmp::PartialOrd::lt($o, MAX)"]:
            # Some on the true edge
            sbb, st = list(cb.switches())[0]
            tr = [ab(canon(cb.expr_of_rvalue(s["r"]))) for bb_ in cb.reachable_from(st["otherwise"], avoid=[t_ for _, t_ in st["targets"]]) for s in cb.stmts(bb_) if s["l"]["v"] == 0]
            okg = tr == ["Some{$o}"]
    # and the filtered value feeds ok_or(...)? whose success is what gets stored
    at = find_calls(body, "Option::<T>::and_then")
    okg = okg and len(at) == 1 and strip(body.expr_of_call(at[0][1], 0, at[0][0])[3][0])[0] == "call" and strip(body.expr_of_call(at[0][1], 0, at[0][0])[3][0])[5] == (fu[0][0] if fu else -1)
    R.ob("P8.extent-below-marker", fn, "o<MAX", okg,
         "%s: an extent is stored only if it is strictly below L::MAX (it can never be read back as the last-item marker); otherwise InsufficientSize" % fn,
         where=b["span"])


def flex_size(F, R):
    b = one(F, krate=FC, trait="flatty_base::traits::FlatBase", method="size", self_adt="flatty_containers::flex::FlexVec")
    body = Body(b)
    fn = "FlexVec::size"
    rs = sorted(r for _, r in ret_stores(body))
    it = "fc::flex::FlexVec::<T, L>::bytes_iter($self)"
    want = sorted(["Add(OFFSET_SIZE, %s.1)" % it,
                   "Add(OFFSET_SIZE, %s.1, utils::ceil_mul(FlatBase::size(core::result::Result::<T, E>::unwrap(FlatValidate::from_bytes((%%open_payload as Some).0))), ALIGN))" % it])
    R.ob("F4.flex-size", fn, "formula", rs == want,
         "%s: size() = position of the terminator + OFFSET_SIZE, or position of the open last item + OFFSET_SIZE + ceil_mul(last.size(), ALIGN)%s" % (
             fn, "" if rs == want else " -- found %s" % rs), where=b["span"])
    # open_payload is Some(payload) exactly when the iterator has no continuation after yielding it
    defs = []
    for bb, i, s in body.assigns():
        if not s["l"]["p"] and body.local_name(s["l"]["v"]) == "open_payload":
            defs.append((bb, ab(canon(body.expr_of_rvalue(s["r"])))))
    g = [(sbb, st) for sbb, st in body.switches() if ab(canon(body.expr_of_operand(st["switch"]))) == "core::option::Option::<T>::is_none(%s.0)" % it]
    ok = len(g) == 1
    R.ob("F4.flex-size-open", fn, "open-item", ok and len(defs) >= 2,
         "%s: the last item counts as open exactly when the walk has no continuation after it (it was marked with L::MAX)" % fn, where=b["span"])


# ------------------------------------------------------------------------------------ emplacers

def empty_emplacers(F, R):
    for mod, target in (("vec", "FlatVec"), ("string", "FlatString"), ("flex", "FlexVec")):
        b = one(F, krate=FC, trait=EMP, method="emplace_unchecked", self_adt="flatty_containers::%s::Empty" % mod)
        body = Body(b)
        fn = "%s::Empty::emplace_unchecked" % mod
        R.count("functions_analysed")
        calls = [ab(canon(body.expr_of_call(t, 0, bb))) for bb, t in body.calls()]
        want = ["slice::as_mut_ptr($bytes)", "ZERO", "core::ptr::mut_ptr::<impl *mut T>::write(slice::as_mut_ptr($bytes), ZERO)", "THISM"]
        ok = calls == want and the_return(body) == ["Ok{FlatUnsized::from_mut_bytes_unchecked($bytes)}"]
        wr = [t for bb, t in body.calls() if t["call"].get("def", "").endswith("::write")]
        ok = ok and len(wr) == 1 and wr[0]["call"]["args"] == ["L"]
        # reads nothing from the buffer: no loads through bytes other than as_mut_ptr
        R.ob("D3.empty-writes-zero", fn, "store", ok,
             "%s: writes L::zero() (as type L) at the start of the slice, reads nothing from it, and returns the view of the same slice%s" % (fn, "" if ok else " -- found %s" % calls),
             where=b["span"])
        im = [i for i in F.impls if i["trait"] == "flatty_base::traits::FlatDefault" and i["self_adt"] == "flatty_containers::%s::%s" % (mod, target)]
        ok = len(im) == 1 and [a["ty"] for a in im[0]["assoc"] if a["name"] == "DefaultEmplacer"] == ["flatty_containers::%s::Empty" % mod]
        R.ob("D3.default-is-empty", target, "DefaultEmplacer", ok, "%s: the default emplacer is %s::Empty" % (target, mod), nontrivial=False)
    # who writes the length word inside flatty_containers: raw writes of type L
    writers = set()
    for bj in F.poly(krate=FC):
        bd = Body(bj)
        for bb, t in bd.calls():
            d = t["call"].get("def", "")
            if d.endswith("::write") and "mut_ptr" in d:
                writers.add(bj["def"])
    R.ob("D3.who-writes-len", "flatty_containers", "raw-writes", len(writers) == 3 and all("Empty" in w for w in writers),
         "raw writes in flatty_containers are exactly the three Empty emplacers (found %s)" % sorted(short(w) for w in writers), where="containers/src")


def filling_emplacers(F, R):
    """FromArray / vec::FromIterator / FromStr: Empty first (C03e), room check before the reset where the length is known (C18 R2),
    content-does-not-fit = InsufficientSize (C15)."""
    for mod, adt, known_len, cap_c, need_c in (
        ("vec", "FromArray", True, "gv::capacity(deref(THISM))", "k(N)"),
        ("vec", "FromIterator", False, None, None),
        ("string", "FromStr", True, "gs::capacity(deref(THISM))", "core::str::<impl str>::len(core::convert::AsRef::as_ref($self.0))"),
    ):
        b = one(F, krate=FC, trait=EMP, method="emplace_unchecked", self_adt="flatty_containers::%s::%s" % (mod, adt))
        body = Body(b)
        fn = "%s::%s::emplace_unchecked" % (mod, adt)
        R.count("functions_analysed")
        em = [(bb, t) for bb, t in body.calls() if (t["call"].get("res") or {}).get("def", "").endswith("Empty as flatty_base::emplacer::Emplacer<flatty_containers::%s::%s>>::emplace_unchecked" % (
            mod, "FlatVec<T, L>" if mod == "vec" else "FlatString<L>"))]
        fills = [bb for bb, t in body.calls() if t["call"].get("def", "").split("::")[-1] in ("push", "push_str", "extend_until_full", "push_slice", "extend")]
        all_em = list(em)
        repair_em = []
        g = [(x, n, tt, ff) for x, n, tt, ff in switch_facts(body) if n == ("Lt", cap_c, need_c)] if known_len else []
        if known_len and len(g) == 1:
            # Empty emplacements on the refusal edge (making an invalid target empty) are not "the reset before filling"
            refusal = body.reachable_from(g[0][2], avoid=[g[0][3]])
            repair_em = [c for c in em if c[0] in refusal]
            em = [c for c in em if c[0] not in refusal]
        ok = len(em) == 1 and ab(canon(body.expr_of_call(em[0][1], 0, em[0][0])[3][1])) == "$bytes"
        ok = ok and fills and all(body.dominates(em[0][0], f) for f in fills)
        # ... and no success without it: every Ok return lies behind the reset (an early Ok, e.g. for an empty source, would hand back the old content)
        ok_bbs = [bb for bb, r in ret_stores(body) if r.startswith("Ok{")]
        ok = ok and ok_bbs and all(body.dominates(em[0][0], o) for o in ok_bbs)
        R.ob("E3.empty-first", fn, "reset", bool(ok), "%s: the target is reset to empty (Empty emplacer on the same bytes) before anything is appended, and every "
             "successful return lies behind that reset" % fn, where=b["span"])
        rs = [r for _, r in ret_stores(body)]
        if known_len:
            okr = len(g) == 1 and em and body.edge_dominates((g[0][0], g[0][3]), em[0][0]) and \
                [r for _, r in ret_stores(body, body.reachable_from(g[0][2], avoid=[g[0][3]]))] == ["Err{Error{InsufficientSize{}, 0}}"]
            # on the refusal edge the target is written only to make it valid: at most one Empty emplacement of the same bytes, and only
            # on the is_err edge of validate_unchecked(bytes) of the container type (a valid target stays untouched)
            cond_ok = True
            why_r = ""
            if okr:
                stores_refusal = [bb_ for bb_, t_ in body.calls() if bb_ in refusal and t_["call"].get("def", "").split("::")[-1] in (
                    "push", "push_str", "extend_until_full", "push_slice", "extend", "write", "copy_from_slice", "emplace", "clear", "truncate")]
                if stores_refusal:
                    cond_ok, why_r = False, " -- the refusal path modifies the target"
                if len(repair_em) > 1:
                    cond_ok, why_r = False, " -- more than one reset on the refusal path"
                for (ebb, et) in repair_em:
                    guarded = False
                    for sb2, st2 in body.switches():
                        c2 = ab(canon(body.expr_of_operand(st2["switch"])))
                        if re.fullmatch(r"core::result::Result::<T, E>::is_err\(<fc::(vec::FlatVec<T, L>|string::FlatString<L>) as FlatValidate>::validate_unchecked\(\$bytes\)\)", c2) \
                                and body.edge_dominates((sb2, st2["otherwise"]), ebb):
                            guarded = True
                        if re.fullmatch(r"core::result::Result::<T, E>::is_ok\(<fc::(vec::FlatVec<T, L>|string::FlatString<L>) as FlatValidate>::validate_unchecked\(\$bytes\)\)", c2):
                            ft2 = [b_ for v, b_ in st2["targets"] if int(v) == 0]
                            if ft2 and body.edge_dominates((sb2, ft2[0]), ebb):
                                guarded = True
                    if not guarded or ab(canon(body.expr_of_call(et, 0, ebb)[3][1])) != "$bytes":
                        cond_ok, why_r = False, " -- the reset on the refusal path is not limited to a target that fails validation"
            R.ob("R2.check-before-reset", fn, "room", bool(okr) and cond_ok,
                 "%s: `capacity < needed` (capacity of the view of the same bytes) is refused with InsufficientSize before the target is touched; on that "
                 "path a target is written only when it is not a valid value (then it is made empty)%s" % (fn, why_r), where=b["span"])
            if R.pid in ("C18", "C14"):
                # every error of the emplacer's own making passes the repair decision (refusal edge of the room gate) or comes after the
                # reset: an earlier shortcut exit would leave an invalid tail of a composite as it is
                own_errs = [bb_ for bb_, r_ in ret_stores(body) if r_.startswith("Err{")]
                early = [bb_ for bb_ in own_errs if not (okr and (bb_ in refusal or (em and body.dominates(em[0][0], bb_))))]
                if early:
                    cond_ok = False
                R.ob("R2.refusal-leaves-valid", fn, "invalid-target-reset", bool(okr) and cond_ok and len(repair_em) == 1,
                     "%s: when the content is refused and the bytes are no valid container (tail of a composite being re-initialised: new tag over old "
                     "bytes) they are made an empty one, so that the composite stays valid (a stale length over a small capacity would let the next safe "
                     "push write outside the slice)" % fn, where=b["span"])
        errs = [r for r in rs if r.startswith("Err{")]
        cl = [ab(r) for c in closures_of(F, b) for r in the_return(Body(c))]
        okk = all(e == "Err{Error{InsufficientSize{}, 0}}" for e in errs) and all(c == "Error{InsufficientSize{}, 0}" for c in cl) and (errs or cl)
        R.ob("K1.errkind", fn, "does-not-fit", bool(okk), "%s: content that does not fit is reported as InsufficientSize" % fn, where=b["span"])
        if not known_len:
            # E4: all-or-error for a source of unknown length: every item goes through the fallible push, a refused push is the
            # InsufficientSize exit, and Ok is returned only once the source is exhausted (no size_hint shortcut, no silent truncation).
            nx = [(bb, t) for bb, t in body.calls() if call_matches(body.expr_of_call(t, 0, bb), "Iterator::next", "next")]
            pushes = [(bb, t) for bb, t in body.calls() if ((t["call"].get("res") or {}).get("def") or t["call"].get("def", "")).endswith("GenericVec::<C, L>::push")]
            ok4, why = True, []
            if len(nx) != 1 or len(pushes) != 1 or len(fills) != 1:
                ok4 = False
                why.append("expected one Iterator::next and one fallible push as the only fill operation (next: %d, push: %d, fill calls: %d)" % (len(nx), len(pushes), len(fills)))
            else:
                nbb, nt = nx[0]
                pbb, pt = pushes[0]
                none_edge = some_edge = None
                for sbb, st in body.switches():
                    cond = body.expr_of_operand(st["switch"])
                    if cond[0] == "discr" and strip(cond[1])[0] == "call" and strip(cond[1])[5] == nbb:
                        for v, tgt in st["targets"]:
                            if int(v) == 0:
                                none_edge = (sbb, tgt)
                            elif int(v) == 1:
                                some_edge = (sbb, tgt)
                        if some_edge is None and none_edge is not None:
                            some_edge = (sbb, st["otherwise"])
                        if none_edge is None and some_edge is not None:
                            none_edge = (sbb, st["otherwise"])
                if none_edge is None or some_edge is None:
                    ok4 = False
                    why.append("the result of next() is not matched on None/Some directly")
                else:
                    oks = [bb for bb, r in ret_stores(body) if r.startswith("Ok{")]
                    if not oks or not all(body.edge_dominates(none_edge, o) for o in oks):
                        ok4 = False
                        why.append("an Ok return is reachable without the source being exhausted")
                    if not body.edge_dominates(some_edge, pbb):
                        ok4 = False
                        why.append("push is not on the Some edge of next()")
                    item = ab(canon(body.expr_of_call(pt, 0, pbb)[3][1]))
                    if "as Some).0" not in item or "Iterator::next" not in item:
                        ok4 = False
                        why.append("the pushed value is not the item just taken from the source (%s)" % item[:80])
                    # the refusal edge
                    handled = False
                    for sbb, st in body.switches():
                        c = ab(canon(body.expr_of_operand(st["switch"])))
                        if "gv::push(" not in c:
                            continue
                        if c.startswith("core::result::Result::<T, E>::is_err("):
                            err_t, ok_t = st["otherwise"], [b_ for v, b_ in st["targets"] if int(v) == 0][0]
                        elif c.startswith("core::result::Result::<T, E>::is_ok("):
                            ok_t, err_t = st["otherwise"], [b_ for v, b_ in st["targets"] if int(v) == 0][0]
                        elif c.startswith("discr("):
                            tg = dict((int(v), b_) for v, b_ in st["targets"])
                            ok_t, err_t = tg.get(0), tg.get(1, st["otherwise"])
                        else:
                            continue
                        region = body.reachable_from(err_t, avoid=[nbb])
                        rr = [r for _, r in ret_stores(body, region)]
                        if rr == ["Err{Error{InsufficientSize{}, 0}}"] and nbb not in region and nbb in body.reachable_from(ok_t):
                            handled = True
                    if not handled:
                        ok4 = False
                        why.append("a refused push does not lead straight to Err(InsufficientSize) (or an accepted one does not continue with the next item)")
                    # ... and nothing else refuses: an upper size_hint is only a bound (filter, take_while, chain ...), so content that fits must
                    # not be turned away on its account; the only error of this emplacer's own making is the refused push
                    own_err = [bb for bb, r in ret_stores(body) if r.startswith("Err{")]
                    if not all(body.edge_dominates(some_edge, e) and body.dominates(pbb, e) for e in own_err):
                        ok4 = False
                        why.append("an error of its own is returned without a refused push (content that fits may be turned away)")
            # a lower-bound size_hint cannot decide "does not fit", so there is no refusal before the reset for such a source: every
            # Err exit of its own comes after the reset, which is what keeps a composite valid when this emplacer fails as its tail (C18).
            err_bbs = [bb for bb, r in ret_stores(body) if r.startswith("Err{")]
            if em and not all(body.dominates(em[0][0], e) for e in err_bbs):
                ok4 = False
                why.append("an error exit is taken before the target was reset to empty (for a source of unknown length a pre-check cannot replace the reset)")
            if R.pid == "C18":
                after = [e for e in err_bbs if em and body.dominates(em[0][0], e)]
                R.ob("R5.unchanged-on-refusal", "FromIterator::emplace_unchecked", "modifies-before-knowing", not after,
                     "vec::/flex::FromIterator emplacers refuse content that does not fit only after the target was reset and partly refilled (one pass over a source of "
                     "unknown length): a refused assign_in_place leaves a valid but CHANGED target", where=b["span"])
            R.ob("E4.all-or-error", fn, "fill-loop", ok4,
                 "%s: every item of the source is appended with the fallible push; the first refusal returns InsufficientSize; Ok only when the source is exhausted%s" % (
                     fn, "" if ok4 else " -- " + "; ".join(why)), where=b["span"])
