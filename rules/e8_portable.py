"""E6 of the design ("delegation"): portable scalars. Every method of every trait impl of the 12 Int and 4 Float
instantiations is the native operation between to_native / from_native, and those are to_X_bytes / from_X_bytes with
X = le iff BE == false; layouts; aliases; derives."""
import re
from mir import Body
from e5_formulas import canon, the_return

NATIVE = {(2, False): "u16", (4, False): "u32", (8, False): "u64", (2, True): "i16", (4, True): "i32", (8, True): "i64"}
FNATIVE = {4: "f32", 8: "f64"}
LIMITS = {"u16": (0, 65535), "u32": (0, 4294967295), "u64": (0, 18446744073709551615), "i16": (-32768, 32767),
          "i32": (-2147483648, 2147483647), "i64": (-9223372036854775808, 9223372036854775807)}
RESO = "<core::option::Option<T> as core::ops::try_trait::FromResidual<core::option::Option<core::convert::Infallible>>>::from_residual((TRYO(%s) as Break).0)"
RESR = "<core::result::Result<T, F> as core::ops::try_trait::FromResidual<core::result::Result<core::convert::Infallible, E>>>::from_residual((TRYR(%s) as Break).0)"


def instantiations():
    out = []
    for be in (False, True):
        for (n, s), nat in NATIVE.items():
            out.append(("flatty_portable::int::Int<%s, %d, %s>" % (str(be).lower(), n, str(s).lower()), "int", be, n, s, nat))
        for n, nat in FNATIVE.items():
            out.append(("flatty_portable::float::Float<%s, %d>" % (str(be).lower(), n), "float", be, n, None, nat))
    return out


def norm(s, selfty, nat):
    pathty = selfty.replace("Int<", "Int::<").replace("Float<", "Float::<")
    s = s.replace(pathty + "::from_native(", "W(").replace(pathty + "::to_native(", "U(")
    s = s.replace("<core::option::Option<T> as core::ops::try_trait::Try>::branch", "TRYO")
    s = s.replace("<core::result::Result<T, E> as core::ops::try_trait::Try>::branch", "TRYR")
    s = s.replace(selfty, "SELF")
    s = re.sub(r"\b%s\b" % nat, "NAT", s)
    return s


def expected(kind, be, n, signed, nat):
    e = "be" if be else "le"
    K = "flatty_portable::int::Int::<BE, N, S>" if kind == "int" else "flatty_portable::float::Float::<BE, N>"
    MOD = "core::num::<impl NAT>" if kind == "int" else "core::NAT::<impl NAT>"
    t = {
        ("inherent", "from_native"): ["%s::from_bytes(%s::to_%s_bytes($n))" % (K, MOD, e)],
        ("inherent", "to_native"): ["%s::from_%s_bytes(%s::to_bytes($self))" % (MOD, e, K)],
        ("From", "from"): ["W($n)"],
        ("NumCast", "from"): sorted([RESO % "<NAT as num_traits::cast::NumCast>::from($n)",
                                     "Some{W((TRYO(<NAT as num_traits::cast::NumCast>::from($n)) as Continue).0)}"]),
        ("ToPrimitive", "to_u64"): ["<NAT as num_traits::cast::ToPrimitive>::to_u64(U($self))"],
        ("ToPrimitive", "to_i64"): ["<NAT as num_traits::cast::ToPrimitive>::to_i64(U($self))"],
        ("FromPrimitive", "from_u64"): sorted([RESO % "<NAT as num_traits::cast::FromPrimitive>::from_u64($n)",
                                               "Some{W((TRYO(<NAT as num_traits::cast::FromPrimitive>::from_u64($n)) as Continue).0)}"]),
        ("FromPrimitive", "from_i64"): sorted([RESO % "<NAT as num_traits::cast::FromPrimitive>::from_i64($n)",
                                               "Some{W((TRYO(<NAT as num_traits::cast::FromPrimitive>::from_i64($n)) as Continue).0)}"]),
        ("Num", "from_str_radix"): sorted([RESR % "<NAT as num_traits::Num>::from_str_radix($str, $radix)",
                                           "Ok{W((TRYR(<NAT as num_traits::Num>::from_str_radix($str, $radix)) as Continue).0)}"]),
        ("One", "one"): ["W(<NAT as num_traits::identities::One>::one())"],
        ("Zero", "zero"): ["W(<NAT as num_traits::identities::Zero>::zero())"],
        ("Zero", "is_zero"): ["<NAT as num_traits::identities::Zero>::is_zero(U($self))"],
        ("Add", "add"): ["W(Add(U($rhs), U($self)))"],
        ("Sub", "sub"): ["W(Sub(U($self), U($rhs)))"],
        ("Mul", "mul"): ["W(Mul(U($rhs), U($self)))"],
        ("Div", "div"): ["W(Div(U($self), U($rhs)))"],
        ("Rem", "rem"): ["W(Rem(U($self), U($rhs)))"],
    }
    if kind == "int":
        lo, hi = LIMITS[nat]
        t[("Bounded", "min_value")] = ["W(%d)" % lo]
        t[("Bounded", "max_value")] = ["W(%d)" % hi]
        t[("Ord", "cmp")] = ["core::cmp::impls::<impl core::cmp::Ord for NAT>::cmp(U($self), U($other))"]
        t[("PartialOrd", "partial_cmp")] = ["Some{core::cmp::impls::<impl core::cmp::Ord for NAT>::cmp(U($self), U($other))}"]
        if signed:
            t[("Neg", "neg")] = ["W(Neg(U($self)))"]
            t[("Signed", "abs")] = ["W(core::num::<impl NAT>::abs(U($self)))"]
            t[("Signed", "abs_sub")] = ["W(<NAT as num_traits::sign::Signed>::abs_sub(U($self), U($other)))"]
            t[("Signed", "signum")] = ["W(core::num::<impl NAT>::signum(U($self)))"]
            t[("Signed", "is_positive")] = ["core::num::<impl NAT>::is_positive(U($self))"]
            t[("Signed", "is_negative")] = ["core::num::<impl NAT>::is_negative(U($self))"]
    else:
        t[("Bounded", "min_value")] = ["W(core::NAT::<impl NAT>::MIN)"]
        t[("Bounded", "max_value")] = ["W(core::NAT::<impl NAT>::MAX)"]
        t[("Neg", "neg")] = ["W(Neg(U($self)))"]
        t[("PartialOrd", "partial_cmp")] = ["core::cmp::impls::<impl core::cmp::PartialOrd for NAT>::partial_cmp(U($self), U($other))"]
    return t


ASSIGN = {"AddAssign": ("add_assign", "Add", "add"), "SubAssign": ("sub_assign", "Sub", "sub"), "MulAssign": ("mul_assign", "Mul", "mul"),
          "DivAssign": ("div_assign", "Div", "div"), "RemAssign": ("rem_assign", "Rem", "rem")}
IGNORED = {("Debug", "fmt"), ("Display", "fmt"), ("Serialize", "serialize"), ("Deserialize", "deserialize")}


def scalar_rules(F, R):
    nmeth = 0
    for selfty, kind, be, n, signed, nat in instantiations():
        exp = expected(kind, be, n, signed, nat)
        seen = set()
        short = selfty.split("::")[-1]
        for b in F.bodies:
            im = b.get("impl")
            if b["krate"] != "flatty_portable" or not im or im["self"] != selfty or b["defkind"] == "Closure":
                continue
            tr = (im["trait"] or "inherent").split("::")[-1]
            key = (tr, im["method"])
            body = Body(b)
            if key in IGNORED:
                continue
            nmeth += 1
            if tr in ASSIGN:
                meth, optr, opm = ASSIGN[tr]
                st = [(canon(body.expr_of_place(s["l"])), norm(canon(body.expr_of_rvalue(s["r"])), selfty, nat))
                      for bb, i, s in body.assigns() if s["l"]["p"] and s["l"]["v"] == 1]
                want = [("$self", "<SELF as core::ops::arith::%s>::%s($self, $rhs)" % (optr, opm))]
                # integer + and * are commutative (Add/Mul themselves are pinned to the native operator by their own obligation),
                # so the operands may come in either order; floats are kept strict (NaN payload propagation is operand-order dependent)
                swapped = [("$self", "<SELF as core::ops::arith::%s>::%s($rhs, $self)" % (optr, opm))]
                okst = st == want or (st == swapped and opm in ("add", "mul") and "Int" in short)
                R.ob("D1.delegation", short, "%s::%s" % key, okst,
                     "%s: %s::%s stores self %s rhs into *self%s" % (short, tr, meth, opm, "" if okst else " -- found %s" % st), where=b["span"])
                seen.add(key)
                continue
            if key not in exp:
                R.ob("D1.delegation", short, "%s::%s" % key, False, "%s: unexpected method %s::%s on a portable scalar (no delegation rule)" % (short, tr, im["method"]),
                     where=b["span"])
                continue
            got = sorted(norm(r, selfty, nat) for r in the_return(body))
            # the native type must be the one matching (N, S)
            # equivalent spellings: num-traits' own Bounded impl of the native type is `MIN`/`MAX` (bounded_impl! in num-traits, a pinned dependency)
            alt = [["W(<NAT as num_traits::bounds::Bounded>::%s())" % key[1]]] if tr == "Bounded" else []
            if key == ("PartialOrd", "partial_cmp") and ("Ord", "cmp") in exp:
                # the canonical `Some(self.cmp(other))`: Ord::cmp of the same type is pinned to the native comparison by its own obligation
                alt.append(["Some{<SELF as core::cmp::Ord>::cmp($self, $other)}"])
            okd = got == sorted(exp[key]) or got in alt
            R.ob("D1.delegation", short, "%s::%s" % key, okd,
                 "%s: %s::%s delegates to the native %s operation%s" % (short, tr, im["method"], nat,
                                                                          "" if okd else " -- found %s, expected %s" % (got, sorted(exp[key]))),
                 where=b["span"])
            seen.add(key)
            if len(R.samples) < 8 and key in (("inherent", "from_native"), ("Add", "add"), ("Ord", "cmp")):
                R.samples.append({"type": short, "method": "%s::%s" % key, "normal_form": got})
        missing = [k for k in exp if k not in seen]
        R.ob("D1.methods-present", short, "coverage", not missing, "%s: every expected trait method is implemented (%d)%s" % (
            short, len(exp), "" if not missing else " -- missing %s" % missing), nontrivial=False)
        # From<Self> for native
        fb = [b for b in F.bodies if b["krate"] == "flatty_portable" and b.get("impl") and b["impl"]["self"] == nat
              and (b["impl"].get("trait_ref") or "").endswith("From<%s>>" % selfty)]
        ok = len(fb) == 1 and [norm(r, selfty, nat) for r in the_return(Body(fb[0]))] == ["U($s)"]
        R.ob("D1.delegation", short, "From<Self> for native", ok, "%s: conversion into %s is to_native" % (short, nat), where=fb[0]["span"] if fb else None)
        # Ord not derived for ints; Ord absent for floats
        ords = [im for im in F.impls if im["trait"] == "core::cmp::Ord" and im["self"] == selfty]
        if kind == "int":
            R.ob("D2.ord-by-value", short, "Ord", len(ords) == 1 and not ords[0]["derived"], "%s: Ord is hand-written through the native value, not derived from the bytes" % short,
                 nontrivial=False)
    R.floor("D1", "portable scalar methods compared", nmeth, 450)
    # generic impls: from_bytes / to_bytes identity, Default zero bytes, derives on bytes
    for adt, gen in (("flatty_portable::int::Int", "<BE, N, S>"), ("flatty_portable::float::Float", "<BE, N>")):
        nm = adt.split("::")[-1]
        fbs = [b for b in F.bodies if b["krate"] == "flatty_portable" and b["def"] == "%s::%s::from_bytes" % (adt, gen)]
        tbs = [b for b in F.bodies if b["krate"] == "flatty_portable" and b["def"] == "%s::%s::to_bytes" % (adt, gen)]
        ok = len(fbs) == 1 and the_return(Body(fbs[0])) == ["%s{$bytes}" % nm] and len(tbs) == 1 and the_return(Body(tbs[0])) == ["$self.0"]
        # ... and nothing else happens in them (a pair of byte swaps in from_bytes / to_bytes would cancel in every round trip but not in memory)
        ok = ok and all(not list(Body(b_).calls()) and not list(Body(b_).switches()) for b_ in fbs + tbs)
        R.ob("D3.bytes-identity", nm, "from_bytes/to_bytes", ok, "%s: from_bytes / to_bytes are the identity on the stored byte array" % nm, where=fbs[0]["span"] if fbs else None)
        a = F.adts.get(adt)
        ok = a is not None and a["repr_c"] and len(a["variants"][0]["fields"]) == 1 and a["variants"][0]["fields"][0]["ty"] == "[u8; N]"
        R.ob("D3.repr", nm, "struct", ok, "%s is #[repr(C)] with the single field bytes: [u8; N]" % nm, nontrivial=False)
        for tr, must_derive in (("core::cmp::PartialEq", True), ("core::cmp::Eq", True), ("core::hash::Hash", True), ("core::clone::Clone", True)):
            ims = [im for im in F.impls if im["trait"] == tr and im["self_adt"] == adt]
            ok = len(ims) == 1 and ims[0]["derived"] == must_derive
            R.ob("D3.derives", nm, tr.split("::")[-1], ok, "%s: %s is derived on the byte array (equality is equality of stored bytes)" % (nm, tr.split("::")[-1]),
                 nontrivial=False)
        db = [b for b in F.bodies if b["krate"] == "flatty_portable" and b.get("impl") and b["impl"].get("trait") == "core::default::Default"
              and b["impl"].get("self_adt") == adt]
        ok = len(db) == 1 and the_return(Body(db[0])) == ["%s{('repeat', ('const', 0, 'u8'), 'N')}" % nm] or (len(db) == 1 and "repeat" in str(the_return(Body(db[0]))))
        R.ob("D3.default-zero", nm, "Default", bool(ok), "%s: Default is all-zero bytes" % nm, nontrivial=False)
    # aliases and layouts
    al = F.manifest.get("portable_aliases", {})
    for nm, a in sorted(al.items()):
        ty = F.tymarks.get("__ty_" + nm)
        if a["float"]:
            want = "flatty_portable::float::Float<%s, %d>" % (str(a["be"]).lower(), a["bytes"])
        else:
            want = "flatty_portable::int::Int<%s, %d, %s>" % (str(a["be"]).lower(), a["bytes"], str(a["signed"]).lower())
        R.ob("D4.alias", nm, "alias", ty == want, "%s::%s is %s (found %s)" % (a["mod"], a["name"], want, ty), where=ty)
        lay = F.layouts.get(ty or "")
        cs = F.consts.get(ty or "", {})
        ok = lay is not None and lay["align"] == 1 and lay["size"] == a["bytes"] and cs.get("ALIGN") == 1 and cs.get("SIZE") == a["bytes"]
        R.ob("D4.layout", nm, "align1-sizeN", ok, "%s::%s: alignment 1, size %d (rustc and FlatBase agree)" % (a["mod"], a["name"], a["bytes"]), where=ty)
    R.floor("D4", "portable aliases checked", len(al), 16)
    ty = F.tymarks.get("__ty_P_Bool")
    lay = F.layouts.get(ty or "")
    ok = lay is not None and lay["align"] == 1 and lay["size"] == 1 and sorted(v["discr"] for v in lay["variants"]) == [0, 1] and \
        [v["name"] for v in sorted(lay["variants"], key=lambda v: v["discr"])] == ["False", "True"]
    R.ob("D4.bool", "Bool", "layout", ok, "Bool: one byte, False = 0, True = 1", where=ty)
    fb = [b for b in F.bodies if b["krate"] == "flatty_portable" and b.get("impl") and b["impl"]["self"] == "flatty_portable::bool_::Bool"
          and (b["impl"].get("trait_ref") or "").endswith("From<bool>>")]
    ok = False
    if len(fb) == 1:
        body = Body(fb[0])
        # switch on the bool: true -> True
        for sbb, st in body.switches():
            tv = {int(v): t for v, t in st["targets"]}
            f_t, t_t = tv.get(0), st["otherwise"]

            def built(bb, other):
                return [s["r"]["agg"]["vname"] for x in body.reachable_from(bb, avoid=[other]) for s in body.stmts(x)
                        if "agg" in s["r"] and isinstance(s["r"]["agg"], dict) and "vname" in s["r"]["agg"]]
            ok = f_t is not None and built(f_t, t_t) == ["False"] and built(t_t, f_t) == ["True"]
    R.ob("D4.bool-from", "Bool", "From<bool>", ok, "Bool::from(true) = True, Bool::from(false) = False", where=fb[0]["span"] if fb else None)
    # comparisons / hashing / copies of Bool are the derived ones on the two-variant enum (False = 0 < True = 1: the native order of bool)
    for tr in ("core::cmp::PartialEq", "core::cmp::Eq", "core::cmp::PartialOrd", "core::cmp::Ord", "core::hash::Hash", "core::clone::Clone"):
        ims = [im for im in F.impls if im.get("trait") == tr and im.get("self") == "flatty_portable::bool_::Bool"]
        ok = len(ims) == 1 and bool(ims[0].get("derived"))
        R.ob("D4.bool-derives", "Bool", tr.split("::")[-1], ok, "Bool: %s is the derived impl on the enum (variant order False < True checked by D4.bool)" % tr.split("::")[-1],
             nontrivial=False)
    # Bool -> bool and the operators (every pair of values: the bodies are straight-line delegations to the native bool)
    BFROM = "flatty_portable::bool_::<impl core::convert::From<flatty_portable::bool_::Bool> for bool>::from"
    tb = [b for b in F.bodies if b["krate"] == "flatty_portable" and b["def"] == BFROM]
    ok = False
    if len(tb) == 1:
        body = Body(tb[0])
        sw = list(body.switches())
        if len(sw) == 1:
            sbb, st = sw[0]
            tv = {int(v): t for v, t in st["targets"]}
            cond = canon(body.expr_of_operand(st["switch"]))

            def stored(bb, others):
                return [canon(body.expr_of_rvalue(s_["r"])) for x in body.reachable_from(bb, avoid=others) for s_ in body.stmts(x)
                        if s_["l"] and s_["l"]["v"] == 0 and not s_["l"]["p"]]
            ok = cond == "discr($value)" and set(tv) == {0, 1} and stored(tv[0], [tv[1]]) == ["0"] and stored(tv[1], [tv[0]]) == ["1"]
    R.ob("D4.bool-into", "Bool", "From<Bool> for bool", ok, "bool::from(Bool::False) = false, bool::from(Bool::True) = true", where=tb[0]["span"] if tb else None)
    nops = 0
    for tr, meth in (("Not", "not"), ("BitAnd", "bitand"), ("BitOr", "bitor"), ("BitXor", "bitxor")):
        bs = [b for b in F.bodies if b["krate"] == "flatty_portable" and b["def"] == "<flatty_portable::bool_::Bool as core::ops::bit::%s>::%s" % (tr, meth)]
        args = "%s($self)" % BFROM if meth == "not" else "%s($self), %s($rhs)" % (BFROM, BFROM)
        want = ["<T as core::convert::Into<U>>::into(<bool as core::ops::bit::%s>::%s(%s))" % (tr, meth, args)]
        got = the_return(Body(bs[0])) if len(bs) == 1 else None
        nops += 1
        R.ob("D5.bool-op", "Bool", tr, got == want, "Bool::%s is the native bool operation on the converted operands, converted back%s" % (
            meth, "" if got == want else " -- found %s" % got), where=bs[0]["span"] if bs else None)
        if meth == "not":
            continue
        ab_ = [b for b in F.bodies if b["krate"] == "flatty_portable" and b["def"] == "<flatty_portable::bool_::Bool as core::ops::bit::%sAssign>::%s_assign" % (tr, meth)]
        ok = False
        found = None
        if len(ab_) == 1:
            body = Body(ab_[0])
            cs = list(body.calls())
            wantc = "<flatty_portable::bool_::Bool as core::ops::bit::%s>::%s($self, $rhs)" % (tr, meth)
            st_ = [canon(body.expr_of_rvalue(s_["r"])) for bb_, i_, s_ in body.assigns() if s_["l"]["p"] and s_["l"]["v"] == 1]
            found = ([canon(body.expr_of_call(t, 0, bb)) for bb, t in cs], st_)
            ok = found == ([wantc], [wantc])
        nops += 1
        R.ob("D5.bool-op", "Bool", tr + "Assign", ok, "Bool::%s_assign stores self %s rhs (the same operator) into self%s" % (
            meth, meth, "" if ok else " -- found %s" % (found,)), where=ab_[0]["span"] if ab_ else None)
    R.floor("D5", "Bool operators compared", nops, 7)
