"""E7 of the design: compile-fail witnesses with compiling twins (crate /verif/witness, doctests compiled by
`cargo +nightly test --doc`, error codes checked; nothing is run)."""
import fcntl
import json
import os
import re
import subprocess
import framework

WITNESS_PROPS = {
    "w01_two_recv_guards": ("C07", "C08", "C10"), "w02_send_uninit": ("C07", "C08"), "w03_forge_recv_guard": ("C10",),
    "w04_poison_private": ("C07", "C09"), "w05_from_bytes_unchecked": ("C02", "C14"), "w06_validate_unchecked": ("C01", "C02"),
    "w07_emplace_unchecked": ("C14", "C15"), "w08_as_mut_bytes": ("C14",), "w09_portable_native_field": ("C17",),
    "w10_portable_tag": ("C17",), "w11_vec_native_elem": ("C17",), "w12_vec_native_len": ("C17",), "w13_string_native_len": ("C17",),
    "w14_flex_native_len": ("C17",), "w15_flex_native_item": ("C17",), "w16_unchecked_ref_data": ("C12",), "w17_wrap_unchecked": ("C02",), "w18_portable_clike_tag": ("C17",),
    "w19_user_repr_on_flat": ("C17", "C04"), "w20_user_repr_on_unsized_flat": ("C04", "C01", "C02"),
    "w21_cfg_field_on_flat": ("C04", "C01", "C02"), "w22_cfg_variant_on_flat": ("C04", "C02"),
    "w23_user_repr_on_flat_enum": ("C17", "C04"), "w24_user_repr_on_clike_enum": ("C17", "C04"),
    "w25_flatwrap_inline_storage": ("C02", "C03", "C15"),
}
TWIN = {"w11_vec_native_elem": "t11_portable_containers", "w12_vec_native_len": "t11_portable_containers", "w13_string_native_len": "t11_portable_containers",
        "w14_flex_native_len": "t11_portable_containers", "w15_flex_native_item": "t11_portable_containers"}


def run_witnesses():
    key = framework.sha_tree([framework.REPO, os.path.join(framework.VERIF, "witness", "src"), os.path.join(framework.VERIF, "witness", "Cargo.toml")])
    cache = os.path.join(framework.WORK, "cache")
    os.makedirs(cache, exist_ok=True)
    out = os.path.join(cache, "witness-%s.json" % key)
    lock = open(os.path.join(framework.WORK, "lock-witness"), "w")
    fcntl.flock(lock, fcntl.LOCK_EX)
    try:
        if os.path.exists(out):
            return json.load(open(out))
        for f in os.listdir(cache):
            if f.startswith("witness-"):
                os.remove(os.path.join(cache, f))
        wdir = os.path.join(framework.VERIF, "witness")
        subprocess.run(["cp", "/repo/Cargo.lock", os.path.join(wdir, "Cargo.lock")])
        tgt = subprocess.run(["mktemp", "-d", os.path.join(framework.WORK, "wit.XXXXXX")], capture_output=True, text=True).stdout.strip()
        env = dict(os.environ, CARGO_TARGET_DIR=tgt, CARGO_NET_OFFLINE="true")
        r = subprocess.run(["cargo", "+nightly", "test", "--doc", "--offline", "-j16"], cwd=wdir, env=env, capture_output=True, text=True)
        subprocess.run(["rm", "-rf", tgt])
        res = {}
        for line in (r.stdout + r.stderr).splitlines():
            m = re.match(r"^test src/lib\.rs - (\w+) \(line \d+\)( - compile fail| - compile)? \.\.\. (\w+)", line)
            if m:
                res[m.group(1)] = {"mode": (m.group(2) or "").strip(" -"), "result": m.group(3)}
        data = {"results": res, "rc": r.returncode, "tail": (r.stdout + r.stderr)[-3000:]}
        if res:
            json.dump(data, open(out, "w"))
        return data
    finally:
        fcntl.flock(lock, fcntl.LOCK_UN)
        lock.close()


def witness_rules(F, R):
    data = run_witnesses()
    res = data["results"]
    if not res:
        R.ob("W.build", "witness", "doctests", False, "witness crate did not build/run: %s" % data["tail"][-1500:])
        return
    n = 0
    for w, props in sorted(WITNESS_PROPS.items()):
        if R.pid not in props:
            continue
        n += 1
        r = res.get(w)
        t = TWIN.get(w, "t" + w[1:])
        tr = res.get(t)
        ok = r is not None and r["result"] == "ok" and r["mode"] == "compile fail"
        okt = tr is not None and tr["result"] == "ok"
        R.ob("W.compile-fail", w, "witness", ok,
             "witness %s must fail to compile with its stated error code (result: %s)" % (w, r), where="witness/src/lib.rs")
        R.ob("W.twin", t, "twin", okt, "compiling twin %s (differs by the offending line only) must compile (result: %s)" % (t, tr),
             nontrivial=False, where="witness/src/lib.rs")
    R.count("witnesses", n)
