"""Loader for the JSON-lines facts written by the flatty-facts driver."""
import glob
import json
import os
import re


class Facts:
    def __init__(self, facts_dir):
        self.dir = facts_dir
        self.crates = {}
        self.bodies = []  # polymorphic bodies (dicts)
        self.mono = {}  # id -> mono body
        self.insts = {}  # id -> light instance record
        self.roots = {}  # name -> [inst ids]
        self.layouts = {}
        self.consts = {}
        self.traits_of = {}
        self.impls = []
        self.adts = {}
        self.fns = {}
        self.tymarks = {}
        self.files = sorted(glob.glob(os.path.join(facts_dir, "*.jsonl")))
        for f in self.files:
            with open(f) as fh:
                for line in fh:
                    if not line.strip():
                        continue
                    j = json.loads(line)
                    k = j["kind"]
                    if k == "crate":
                        self.crates[j["name"] + ("-test" if j.get("test") else "")] = f
                    elif k == "body":
                        if j["mono"]:
                            self.mono[j["id"]] = j
                        else:
                            self.bodies.append(j)
                    elif k == "inst":
                        self.insts[j["id"]] = j
                    elif k == "root":
                        self.roots[j["name"]] = j["insts"]
                    elif k == "layout":
                        self.layouts[j["ty"]] = j
                    elif k == "consts":
                        self.consts[j["ty"]] = {n: v for n, v in j["consts"]}
                        self.traits_of[j["ty"]] = set(j["traits"])
                    elif k == "impl":
                        self.impls.append(j)
                    elif k == "adt":
                        self.adts[j["def"]] = j
                    elif k == "fn":
                        self.fns[j["def"]] = j
                    elif k == "tymark":
                        self.tymarks[j["name"]] = j["ty"]
        self._by_def = {}
        for b in self.bodies:
            self._by_def.setdefault(b["def"], []).append(b)

    # ---- lookups -----------------------------------------------------------
    def poly(self, krate=None, def_re=None, name=None, trait=None, self_adt=None, method=None,
             self_re=None, coroutine=None):
        out = []
        for b in self.bodies:
            if krate and b["krate"] != krate:
                continue
            if name and b["name"] != name:
                continue
            if def_re and not (re.search(def_re, b["def"]) or re.search(def_re, b["id"])):
                continue
            im = b.get("impl")
            if trait is not None:
                if not im or im.get("trait") != trait:
                    continue
            if self_adt is not None:
                if not im or im.get("self_adt") != self_adt:
                    continue
            if self_re is not None:
                if not im or not re.search(self_re, im.get("self") or ""):
                    continue
            if method is not None:
                if not im or im.get("method") != method or b.get("defkind") == "Closure":
                    continue
            if coroutine is not None and b.get("coroutine") != coroutine:
                continue
            out.append(b)
        return out

    def one(self, **kw):
        r = self.poly(**kw)
        if len(r) != 1:
            raise AnchorLost("expected exactly one body for %r, found %d: %s" % (kw, len(r), [b["id"] for b in r][:5]))
        return r[0]

    def by_def(self, d):
        return self._by_def.get(d, [])

    def adt_field_index(self, adt_def, field, variant=0):
        a = self.adts.get(adt_def)
        if not a:
            raise AnchorLost("adt %s not found" % adt_def)
        for i, f in enumerate(a["variants"][variant]["fields"]):
            if f["name"] == field:
                return i
        raise AnchorLost("field %s.%s not found" % (adt_def, field))

    def adt_field(self, adt_def, field, variant=0):
        a = self.adts.get(adt_def)
        if not a:
            raise AnchorLost("adt %s not found" % adt_def)
        for i, f in enumerate(a["variants"][variant]["fields"]):
            if f["name"] == field:
                return f
        raise AnchorLost("field %s.%s not found" % (adt_def, field))


class AnchorLost(Exception):
    pass


def as_int(v):
    if v is None:
        return None
    if isinstance(v, str):
        return int(v)
    return v
