"""Check framework: facts cache, reports, evidence, known findings."""
import fcntl
import hashlib
import json
import os
import subprocess
import sys
import time

VERIF = os.path.dirname(os.path.dirname(os.path.abspath(__file__)))
REPO = "/repo"
WORK = os.path.join(VERIF, ".work")


def sha_tree(paths, exts=(".rs", ".toml", ".lock", ".py", ".json")):
    h = hashlib.sha256()
    for root in paths:
        if os.path.isfile(root):
            h.update(root.encode())
            h.update(open(root, "rb").read())
            continue
        for dp, dn, fn in os.walk(root):
            dn[:] = sorted(d for d in dn if d not in ("target", ".git", ".work", "__pycache__", "evidence"))
            for f in sorted(fn):
                if f.endswith(exts):
                    p = os.path.join(dp, f)
                    h.update(p.encode())
                    try:
                        h.update(open(p, "rb").read())
                    except OSError:
                        pass
    return h.hexdigest()[:20]


def ensure_facts(tier):
    """Return facts dir for the current /repo working tree and corpus (extracting if needed)."""
    os.makedirs(WORK, exist_ok=True)
    key = sha_tree([REPO, os.path.join(VERIF, "corpus", "gen.py"), os.path.join(VERIF, "driver", "src"),
                    os.path.join(VERIF, "extract.sh")])
    cache = os.path.join(WORK, "cache")
    os.makedirs(cache, exist_ok=True)
    out = os.path.join(cache, "%s-%s" % (tier, key))
    lock = open(os.path.join(WORK, "lock-%s" % tier), "w")
    fcntl.flock(lock, fcntl.LOCK_EX)
    try:
        ok = os.path.join(out, "OK")
        if os.path.exists(ok):
            return out, True, json.load(open(os.path.join(out, "corpus_manifest.json")))
        # evict old caches of this tier
        for d in os.listdir(cache):
            if d.startswith(tier + "-") and d != os.path.basename(out):
                subprocess.run(["rm", "-rf", os.path.join(cache, d)])
        subprocess.run(["rm", "-rf", out])
        os.makedirs(out)
        corpus = os.path.join(WORK, "corpus-%s" % tier)
        subprocess.run(["rm", "-rf", corpus])
        r = subprocess.run([sys.executable, os.path.join(VERIF, "corpus", "gen.py"), "--tier", tier, "--out", corpus],
                           capture_output=True, text=True)
        if r.returncode != 0:
            raise ExtractionFailed("corpus generator failed:\n" + r.stdout + r.stderr)
        r = subprocess.run([os.path.join(VERIF, "extract.sh"), corpus, out], capture_output=True, text=True)
        log = ""
        try:
            log = open(os.path.join(out, "cargo.log")).read()
        except OSError:
            pass
        if r.returncode != 0:
            raise ExtractionFailed("corpus does not build against the library (cargo check failed):\n" + log[-6000:])
        man = json.load(open(os.path.join(corpus, "manifest.json")))
        json.dump(man, open(os.path.join(out, "corpus_manifest.json"), "w"))
        need = ["flatty_base", "flatty_containers", "flatty_portable", "flatty_io", "flatty_corpus"]
        have = os.listdir(out)
        for n in need:
            if not any(f.startswith(n + ".") and os.path.getsize(os.path.join(out, f)) > 100 for f in have):
                raise ExtractionFailed("facts of crate %s missing (driver skipped?)\n%s" % (n, log[-3000:]))
        open(ok, "w").write("ok")
        return out, False, man
    finally:
        fcntl.flock(lock, fcntl.LOCK_UN)
        lock.close()


class ExtractionFailed(Exception):
    pass


def load_known():
    p = os.path.join(VERIF, "known_findings.json")
    if not os.path.exists(p):
        return {"findings": [], "fixed": []}
    return json.load(open(p))


class Report:
    def __init__(self, pid, tier, seed):
        self.pid = pid
        self.tier = tier
        self.seed = seed
        self.t0 = time.time()
        self.obligations = []  # (rule, key, ok, text)
        self.assumptions = []
        self.samples = []
        self.counts = {}
        self.rules = {}
        self.explanations = []
        known = load_known()
        self.known = {f["key"]: f for f in known.get("findings", []) if f.get("property") == pid}
        self.known_hit = set()

    def rule(self, rid, text):
        self.rules[rid] = text

    def explain(self, text):
        self.explanations.append(text)

    def count(self, name, n=1):
        self.counts[name] = self.counts.get(name, 0) + n

    def assume(self, text):
        if text not in self.assumptions:
            self.assumptions.append(text)

    def ob(self, rule, fn, site, ok, text, detail=None, nontrivial=True, where=None):
        """Record one obligation. key = pid|rule|fn|site (no line numbers)."""
        key = "%s|%s|%s|%s" % (self.pid, rule, fn, site)
        self.obligations.append({"rule": rule, "key": key, "ok": bool(ok), "text": text, "detail": detail,
                                 "nontrivial": nontrivial, "where": where})
        return ok

    def floor(self, rule, what, got, minimum):
        """Fail closed when a rule matched fewer instances than counted by hand."""
        self.ob(rule + ".floor", what, "count", got >= minimum,
                "%s: %d instance(s) analysed, floor %d%s" % (what, got, minimum,
                                                              "" if got >= minimum else " -- anchor lost / count below floor"),
                nontrivial=False)

    def anchor_lost(self, rule, what, msg):
        self.ob(rule + ".anchor", what, "anchor", False, "anchor lost: %s" % msg)

    def finish(self, level="other"):
        viol = []
        known_lines = []
        for o in self.obligations:
            if o["ok"]:
                continue
            if o["key"] in self.known:
                self.known_hit.add(o["key"])
                known_lines.append((o["key"], self.known[o["key"]].get("what", o["text"])))
            else:
                viol.append(o)
        ev_dir = os.environ.get("VERIF_EVIDENCE_DIR") or os.path.join(VERIF, "evidence")  # seeded-change runs write elsewhere
        os.makedirs(ev_dir, exist_ok=True)
        vdir = os.path.join(ev_dir, "violations", self.pid)
        subprocess.run(["rm", "-rf", vdir])
        seen_known = set()
        for k, what in known_lines:
            if k in seen_known:
                continue
            seen_known.add(k)
            print("KNOWN-FINDING: property=%s %s [%s]" % (self.pid, what, k))
        printed = set()
        for o in viol:
            if o["key"] in printed:
                continue
            printed.add(o["key"])
            os.makedirs(vdir, exist_ok=True)
            h = hashlib.sha256(o["key"].encode()).hexdigest()[:12]
            p = os.path.join(vdir, h + ".json")
            json.dump({"property": self.pid, "rule": o["rule"], "rule_text": self.rules.get(o["rule"].split(".floor")[0].split(".anchor")[0], ""),
                       "key": o["key"], "text": o["text"], "detail": o["detail"], "where": o["where"]}, open(p, "w"), indent=1)
            print("VIOLATION property=%s replay=%s" % (self.pid, p))
            print("  rule %s: %s%s" % (o["rule"], o["text"], (" @ " + o["where"]) if o["where"] else ""))
        n_ob = len(self.obligations)
        n_ok = sum(1 for o in self.obligations if o["ok"])
        distinct = len({o["key"] for o in self.obligations if o["nontrivial"]})
        samples = self.samples[:12]
        if not samples:
            samples = [{"rule": o["rule"], "key": o["key"], "text": o["text"], "ok": o["ok"]} for o in self.obligations[:8]]
        per_rule = {}
        for o in self.obligations:
            r = per_rule.setdefault(o["rule"], {"obligations": 0, "discharged": 0})
            r["obligations"] += 1
            r["discharged"] += 1 if o["ok"] else 0
        ev = {
            "property_id": self.pid,
            "tier": self.tier,
            "seed": self.seed,
            "level": level,
            "coverage": {
                "explanation": " ".join(self.explanations) or "static rules over exported MIR/layout facts",
                "obligations": n_ob,
                "discharged": n_ok,
                "evaluations": n_ob,
                "distinct_nontrivial": distinct,
                "rule": "one obligation per (rule, function instance, site); distinct = distinct keys; non-trivial = obligation needed a guard/"
                        "formula/constant comparison (floor and anchor bookkeeping obligations are trivial)",
                "samples": samples,
                "checker_cmd": "./check %s --tier %s" % (self.pid, self.tier),
                "trusted_base": ["rustc nightly (type checker, MIR builder, layout, CTFE)", "documented behaviour of core/std/stavec at the boundary"],
                "rules": self.rules,
                "per_rule": per_rule,
                "counts": self.counts,
                "known_findings_matched": sorted(self.known_hit),
                "library_functions_inspected": getattr(self, "functions_inspected", []),
                "library_functions_under_shape_rules": getattr(self, "functions_shape", []),
                "exhaustive": False,
            },
            "assumptions": self.assumptions,
            "wall_s": round(time.time() - self.t0, 2),
            "violations": len(printed),
        }
        json.dump(ev, open(os.path.join(ev_dir, self.pid + ".json"), "w"), indent=1)
        print("%s: %d obligations, %d discharged, %d known finding(s), %d violation(s) [%s tier, %.1fs]" % (
            self.pid, n_ob, n_ok, len(seen_known), len(printed), self.tier, time.time() - self.t0))
        return 1 if printed else 0
