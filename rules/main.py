#!/usr/bin/env python3
"""./check <Cxx> [--tier quick|thorough] [--replay path]"""
import argparse
import json
import os
import sys
import traceback

sys.path.insert(0, os.path.dirname(os.path.abspath(__file__)))
import framework
from facts import Facts, AnchorLost
import props


def main():
    ap = argparse.ArgumentParser()
    ap.add_argument("pid")
    ap.add_argument("--tier", default=os.environ.get("VERIF_TIER", "quick"))
    ap.add_argument("--replay", default=None)
    ap.add_argument("--facts", default=None, help="use an existing facts dir (debug)")
    a = ap.parse_args()
    tier = a.tier if a.tier in ("quick", "thorough") else "quick"
    seed = int(os.environ.get("VERIF_SEED", "0") or 0)
    pid = a.pid
    if pid not in props.PROPS:
        print("unknown property", pid)
        return 2
    R = framework.Report(pid, tier, seed)
    try:
        if a.facts:
            fdir, cached = a.facts, True
            man = json.load(open(os.path.join(fdir, "corpus_manifest.json")))
        else:
            fdir, cached, man = framework.ensure_facts(tier)
    except framework.ExtractionFailed as e:
        R.rule("X", "facts extraction: the corpus must build against the library")
        R.ob("X.extract", "corpus", "build", False, "facts extraction failed: " + str(e)[:3000])
        return R.finish()
    F = Facts(fdir)
    F.manifest = man
    R.count("fact_files", len(F.files))
    R.count("poly_bodies", len(F.bodies))
    R.count("mono_bodies", len(F.mono))
    R.count("light_instances", len(F.insts))
    R.count("corpus_types", len(man["types"]))
    R.count("facts_cached", 1 if cached else 0)
    if a.replay:
        rec = json.load(open(a.replay))
        print("replay of %s: rule %s" % (rec["key"], rec["rule"]))
    for fn in props.PROPS[pid]:
        try:
            fn(F, R)
        except AnchorLost as e:
            R.anchor_lost(fn.__name__, fn.__name__, str(e))
        except Exception as e:  # a crashing rule must not pass
            R.ob(fn.__name__ + ".crash", fn.__name__, "exception", False,
                 "rule engine error (fail closed): %s\n%s" % (e, traceback.format_exc()[-1500:]))
    from mir import Body
    lib = ("flatty_base", "flatty_containers", "flatty_portable", "flatty_io")
    touched = sorted({d for k, d in Body.TOUCHED if k in lib})
    R.count("library_functions_inspected", len(touched))
    R.count("generated_functions_inspected", len({d for k, d in Body.TOUCHED if k == "flatty_corpus"}))
    R.functions_inspected = touched
    R.functions_shape = sorted({d for k, d in Body.TOUCHED_SHAPE if k in lib})
    R.count("library_functions_under_shape_rules", len(R.functions_shape))
    if a.replay:
        rec = json.load(open(a.replay))
        hit = [o for o in R.obligations if o["key"] == rec["key"]]
        for o in hit:
            print("  now: ok=%s  %s" % (o["ok"], o["text"]))
    return R.finish()


if __name__ == "__main__":
    sys.exit(main())
