import os, sys
"""CFG utilities and expression resolution over exported MIR bodies."""
import json
from functools import lru_cache


def place_key(p):
    return (p["v"], json.dumps(p["p"], sort_keys=True))


class Body:
    TOUCHED_SHAPE = set()   # ... by a rule other than the risky-site inventory (E2)
    TOUCHED = set()   # defs of every body a rule looked at in this run (evidence: what was analysed)

    def __init__(self, j):
        self.j = j
        Body.TOUCHED.add((j.get("krate"), j["def"]))
        try:
            mod = os.path.basename(sys._getframe(1).f_code.co_filename)[:-3]
        except Exception:
            mod = "?"
        if not mod.startswith("e2_"):
            Body.TOUCHED_SHAPE.add((j.get("krate"), j["def"]))
        self.id = j["id"]
        self.defp = j["def"]
        self.blocks = j["blocks"]
        self.locals = j["locals"]
        self.argc = j["argc"]
        self.n = len(self.blocks)
        self._succ = [self._successors(i) for i in range(self.n)]
        self._pred = [[] for _ in range(self.n)]
        for i, ss in enumerate(self._succ):
            for s in ss:
                self._pred[s].append(i)
        self._dom = None
        self._defs = None
        self._reach_cache = {}

    # ---- basic CFG -----------------------------------------------------------
    def term(self, bb):
        return self.blocks[bb]["t"]

    def stmts(self, bb):
        return self.blocks[bb]["st"]

    def _successors(self, bb):
        """Normal (non-unwind) successors."""
        t = self.blocks[bb]["t"]
        if isinstance(t, str):
            return []
        if "goto" in t:
            return [t["goto"]]
        if "switch" in t:
            out = []
            for _, b in t["targets"]:
                if b not in out:
                    out.append(b)
            if t["otherwise"] not in out:
                out.append(t["otherwise"])
            return out
        if "call" in t:
            return [t["target"]] if t["target"] is not None else []
        if "assert" in t:
            return [t["target"]]
        if "drop" in t:
            return [t["target"]]
        if "yield" in t:
            out = [t["resume"]]
            return out
        return []

    def succ(self, bb):
        return self._succ[bb]

    def pred(self, bb):
        return self._pred[bb]

    def is_cleanup(self, bb):
        return self.blocks[bb]["cleanup"]

    def returns(self):
        return [i for i in range(self.n) if self.blocks[i]["t"] == "return"]

    def reachable_from(self, start, avoid=()):
        key = (start, tuple(sorted(avoid)))
        if key in self._reach_cache:
            return self._reach_cache[key]
        seen = set()
        st = [start]
        av = set(avoid)
        while st:
            b = st.pop()
            if b in seen or b in av:
                continue
            seen.add(b)
            st.extend(self._succ[b])
        self._reach_cache[key] = seen
        return seen

    def reachable(self):
        return self.reachable_from(0)

    def dominators(self):
        if self._dom is not None:
            return self._dom
        reach = self.reachable()
        order = self._rpo()
        dom = {b: None for b in order}
        dom[0] = {0}
        allb = set(order)
        for b in order:
            if b != 0:
                dom[b] = set(allb)
        changed = True
        while changed:
            changed = False
            for b in order:
                if b == 0:
                    continue
                ps = [p for p in self._pred[b] if p in reach]
                if not ps:
                    continue
                new = set.intersection(*[dom[p] for p in ps]) | {b}
                if new != dom[b]:
                    dom[b] = new
                    changed = True
        self._dom = dom
        return dom

    def dominates(self, a, b):
        d = self.dominators()
        return b in d and a in d[b]

    def _rpo(self):
        seen = set()
        out = []

        def dfs(b):
            stack = [(b, iter(self._succ[b]))]
            seen.add(b)
            while stack:
                node, it = stack[-1]
                adv = False
                for s in it:
                    if s not in seen:
                        seen.add(s)
                        stack.append((s, iter(self._succ[s])))
                        adv = True
                        break
                if not adv:
                    out.append(node)
                    stack.pop()

        dfs(0)
        out.reverse()
        return out

    def back_edges(self):
        """(tail, head) edges where head dominates tail."""
        out = []
        for b in self.reachable():
            for s in self._succ[b]:
                if self.dominates(s, b):
                    out.append((b, s))
        return out

    def edge_dominates(self, edge, bb):
        """True if every path from entry to bb uses edge (a,b)."""
        a, b = edge
        # remove edge and test reachability of bb
        seen = set()
        st = [0]
        while st:
            x = st.pop()
            if x in seen:
                continue
            seen.add(x)
            for s in self._succ[x]:
                if x == a and s == b:
                    continue
                st.append(s)
        return bb not in seen

    def paths(self, start, stop=None, limit=20000, avoid_edges=()):
        """All acyclic paths from start to a block with no successors (or in stop)."""
        out = []
        stop = set(stop or [])
        av = set(avoid_edges)

        def rec(b, path, onpath):
            if len(out) > limit:
                raise RuntimeError("path explosion in %s" % self.id)
            path.append(b)
            onpath.add(b)
            ss = [s for s in self._succ[b] if (b, s) not in av]
            if b in stop and len(path) > 1 or not ss:
                out.append(list(path))
            else:
                any_ = False
                for s in ss:
                    if s in onpath:
                        out.append(list(path) + [s])  # loop closing path, marked by repeated block
                        any_ = True
                        continue
                    rec(s, path, onpath)
                    any_ = True
            path.pop()
            onpath.discard(b)

        rec(start, [], set())
        return out

    # ---- definitions ------------------------------------------------------------
    def defs(self):
        """local -> list of (bb, idx or 'term', rvalue-or-call dict) for whole-local assignments."""
        if self._defs is not None:
            return self._defs
        d = {}
        partial = {}
        for bb in range(self.n):
            for i, s in enumerate(self.blocks[bb]["st"]):
                l = s["l"]
                if not l:
                    continue
                if not l["p"]:
                    d.setdefault(l["v"], []).append((bb, i, s["r"]))
                else:
                    partial.setdefault(l["v"], []).append((bb, i, s))
            t = self.blocks[bb]["t"]
            if isinstance(t, dict) and "call" in t and t.get("dest"):
                l = t["dest"]
                if not l["p"]:
                    d.setdefault(l["v"], []).append((bb, "term", t))
                else:
                    partial.setdefault(l["v"], []).append((bb, "term", t))
        self._defs = d
        self._partial = partial
        return d

    def partial_defs(self):
        self.defs()
        return self._partial

    def local_name(self, v):
        return self.locals[v].get("name")

    def local_ty(self, v):
        return self.locals[v]["ty"]

    # ---- expression resolution ------------------------------------------------------
    def expr_of_operand(self, o, depth=0):
        if "k" in o:
            k = o["k"]
            if "int" in k:
                v = k["int"]
                return ("const", int(v) if isinstance(v, str) else v, k["ty"])
            if "fn" in k:
                return ("fn", k["fn"]["def"], tuple(k["fn"]["args"]))
            if "promoted_agg" in k:
                pa = k["promoted_agg"]
                return ("ref", ("agg", ("adt", pa["adt"], pa["vname"]), ()))
            if "uneval" in k:
                return ("uneval", k["uneval"])
            if "rtc" in k:
                return ("rtc", k["rtc"])
            return ("kconst", k.get("s", ""), k["ty"])
        p = o.get("c") or o.get("m")
        return self.expr_of_place(p, depth)

    def expr_of_place(self, p, depth=0):
        base = self.expr_of_local(p["v"], depth)
        for e in p["p"]:
            base = self._project(base, e)
        return base

    def _project(self, base, e):
        if e == "*":
            if base[0] == "ref":
                return base[1]
            return ("deref", base)
        if isinstance(e, dict):
            if "f" in e:
                # checked arithmetic: (AddWithOverflow(a,b)).0 -> Add(a,b)
                if base[0] == "bin" and base[1].endswith("WithOverflow"):
                    if e["f"] == 0:
                        return ("bin", base[1][: -len("WithOverflow")], base[2], base[3])
                    return ("overflow_flag", base)
                if base[0] == "agg" and e["f"] < len(base[2]):
                    return base[2][e["f"]]
                return ("field", base, e["f"])
            if "dc" in e:
                return ("downcast", base, e.get("name") or e["dc"])
            if "i" in e:
                return ("index", base, self.expr_of_local(e["i"], 1))
            if "ci" in e:
                return ("cindex", base, tuple(e["ci"]))
            if "sub" in e:
                return ("subslice", base, tuple(e["sub"]))
        return ("proj", base, str(e))

    def expr_of_local(self, v, depth=0):
        if 1 <= v <= self.argc:
            # an argument that is re-assigned is still treated as a parameter
            return ("param", v, self.local_name(v))
        ds = self.defs().get(v, [])
        if len(ds) != 1 or depth > 40:
            return ("local", v, self.local_name(v))
        bb, idx, r = ds[0]
        if idx == "term":
            return self.expr_of_call(r, depth + 1, bb)
        return self.expr_of_rvalue(r, depth + 1)

    def expr_of_call(self, t, depth=0, bb=None):
        c = t["call"]
        if "def" not in c:
            return ("icall", c.get("indirect"), tuple(self.expr_of_operand(o, depth) for o in t["ops"]))
        res = c.get("res") or {}
        return (
            "call",
            c["def"],
            tuple(c["args"]),
            tuple(self.expr_of_operand(o, depth) for o in t["ops"]),
            res.get("def"),
            bb,
        )

    def expr_of_rvalue(self, r, depth=0):
        if "use" in r:
            return self.expr_of_operand(r["use"], depth)
        if "ref" in r:
            return ("ref", self.expr_of_place(r["ref"], depth))
        if "raw" in r:
            return ("ref", self.expr_of_place(r["raw"], depth))
        if "bin" in r:
            return ("bin", r["bin"], self.expr_of_operand(r["a"], depth), self.expr_of_operand(r["b"], depth))
        if "un" in r:
            return ("un", r["un"], self.expr_of_operand(r["a"], depth))
        if "cast" in r:
            inner = self.expr_of_operand(r["a"], depth)
            if r["cast"] == "IntToInt" and inner[0] == "const" and isinstance(inner[1], int):
                bits = {"u8": 8, "u16": 16, "u32": 32, "u64": 64, "usize": 64, "u128": 128}.get(r["ty"])
                if bits and inner[1] >= 0:
                    return ("const", inner[1] & ((1 << bits) - 1), r["ty"])
            return ("cast", r["cast"], inner, r["ty"])
        if "discr" in r:
            return ("discr", self.expr_of_place(r["discr"], depth))
        if "agg" in r:
            a = r["agg"]
            if isinstance(a, dict):
                if "adt" in a:
                    kind = ("adt", a["adt"], a["vname"])
                elif "closure" in a:
                    kind = ("closure", a["closure"], a.get("id"))
                elif "array" in a:
                    kind = ("array", a["array"])
                elif "rawptr" in a:
                    kind = ("rawptr", a["rawptr"])
                else:
                    kind = ("other", json.dumps(a))
            else:
                kind = (a,)
            return ("agg", kind, tuple(self.expr_of_operand(o, depth) for o in r["ops"]))
        if "repeat" in r:
            return ("repeat", self.expr_of_operand(r["repeat"], depth), r["n"])
        return ("other", json.dumps(r)[:80])

    # ---- iteration helpers ----------------------------------------------------------
    def calls(self):
        for bb in range(self.n):
            t = self.blocks[bb]["t"]
            if isinstance(t, dict) and "call" in t:
                yield bb, t

    def asserts(self):
        for bb in range(self.n):
            t = self.blocks[bb]["t"]
            if isinstance(t, dict) and "assert" in t:
                yield bb, t

    def switches(self):
        for bb in range(self.n):
            t = self.blocks[bb]["t"]
            if isinstance(t, dict) and "switch" in t:
                yield bb, t

    def assigns(self):
        for bb in range(self.n):
            for i, s in enumerate(self.blocks[bb]["st"]):
                if s["l"]:
                    yield bb, i, s


# ---- expression helpers ---------------------------------------------------------------

def strip(e):
    """Strip refs, derefs, copies and pointer/identity casts that do not change the denoted object."""
    while True:
        if e[0] in ("ref", "deref"):
            e = e[1]
        elif e[0] == "cast" and (e[1].startswith("PtrToPtr") or e[1].startswith("PointerCoercion") or e[1] == "Transmute"):
            e = e[2]
        else:
            return e


def callee_name(e):
    """Resolved def (if any) else declared def of a call expr."""
    if e[0] != "call":
        return None
    return e[4] or e[1]


def is_call_to(e, *suffixes):
    if e[0] != "call":
        return False
    for n in (e[1], e[4]):
        if n:
            for s in suffixes:
                if n == s or n.endswith("::" + s) or n.endswith(s):
                    return True
    return False


def show(e, depth=0):
    if depth > 12:
        return "..."
    k = e[0]
    if k == "const":
        return str(e[1])
    if k == "param":
        return e[2] or "arg%d" % e[1]
    if k == "local":
        return e[2] or "_%d" % e[1]
    if k == "uneval":
        return e[1]
    if k == "fn":
        return "fn " + e[1]
    if k in ("ref",):
        return "&" + show(e[1], depth + 1)
    if k == "deref":
        return "*" + show(e[1], depth + 1)
    if k == "bin":
        return "%s(%s, %s)" % (e[1], show(e[2], depth + 1), show(e[3], depth + 1))
    if k == "un":
        return "%s(%s)" % (e[1], show(e[2], depth + 1))
    if k == "cast":
        return "(%s as %s)" % (show(e[2], depth + 1), e[3])
    if k == "call":
        nm = (e[4] or e[1]).split("::")[-1]
        full = e[4] or e[1]
        return "%s(%s)" % (full, ", ".join(show(a, depth + 1) for a in e[3]))
    if k == "field":
        return "%s.%d" % (show(e[1], depth + 1), e[2])
    if k == "downcast":
        return "(%s as %s)" % (show(e[1], depth + 1), e[2])
    if k == "discr":
        return "discr(%s)" % show(e[1], depth + 1)
    if k == "agg":
        return "%s{%s}" % ("::".join(str(x) for x in e[1][-1:]), ", ".join(show(a, depth + 1) for a in e[2]))
    return str(e)[:80]


def walk(e):
    """Yield all sub-expressions."""
    yield e
    for x in e[1:]:
        if isinstance(x, tuple) and x and isinstance(x[0], str):
            yield from walk(x)
        elif isinstance(x, tuple):
            for y in x:
                if isinstance(y, tuple) and y and isinstance(y[0], str):
                    yield from walk(y)


def mentions(e, pred):
    return any(pred(x) for x in walk(e))
