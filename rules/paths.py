"""Path events and edge classification on exported MIR."""
from mir import Body, strip, show, walk

CORE_VARIANTS = {
    "Result": {0: "Ok", 1: "Err"},
    "Poll": {0: "Ready", 1: "Pending"},
    "Option": {0: "None", 1: "Some"},
    "ControlFlow": {0: "Continue", 1: "Break"},
}


def enum_of_ty(ty):
    for k in ("core::result::Result", "core::task::poll::Poll", "core::option::Option", "core::ops::control_flow::ControlFlow"):
        if ty.startswith(k + "<") or ty == k:
            return k.split("::")[-1]
    return None


class Ev:
    __slots__ = ("kind", "bb", "a", "b", "c")

    def __init__(self, kind, bb, a=None, b=None, c=None):
        self.kind, self.bb, self.a, self.b, self.c = kind, bb, a, b, c

    def __repr__(self):
        return "Ev(%s bb%d %s %s)" % (self.kind, self.bb, str(self.a)[:60], str(self.b)[:40])


def events(body: Body, path):
    """Events along a path (list of bbs).
    assign: a=lhs place json, b=rvalue json, c=(lhs expr, rhs expr)
    call:   a=terminator json, b=call expr
    branch: a=cond expr, b=value taken (int) or ('not', [ints])
    assert: a=terminator
    ret:    -
    """
    out = []
    for k, bb in enumerate(path):
        if k == len(path) - 1 and bb in path[:k]:
            out.append(Ev("loop", bb))
            break
        for i, s in enumerate(body.stmts(bb)):
            if s["l"]:
                out.append(Ev("assign", bb, s["l"], s["r"], i))
        t = body.term(bb)
        nxt = path[k + 1] if k + 1 < len(path) else None
        if isinstance(t, str):
            if t == "return":
                out.append(Ev("ret", bb))
            elif t == "unreachable":
                out.append(Ev("unreachable", bb))
            continue
        if "call" in t:
            out.append(Ev("call", bb, t, body.expr_of_call(t, 0, bb)))
            if t["target"] is None:
                out.append(Ev("diverge", bb, t))
        elif "switch" in t:
            cond = body.expr_of_operand(t["switch"])
            if nxt is not None:
                vals = [v for v, b in t["targets"] if b == nxt]
                if vals and (nxt != t["otherwise"]):
                    out.append(Ev("branch", bb, cond, int(vals[0]) if len(vals) == 1 else tuple(int(v) for v in vals), t))
                else:
                    out.append(Ev("branch", bb, cond, ("not", [int(v) for v, _ in t["targets"]]), t))
        elif "assert" in t:
            out.append(Ev("assert", bb, t))
        elif "yield" in t:
            out.append(Ev("yield", bb, t))
    return out


def call_matches(e, *names):
    """call expr e (from expr_of_call) names either declared or resolved callee ending with one of names."""
    if e[0] != "call":
        return False
    for n in (e[1], e[4]):
        if not n:
            continue
        for nm in names:
            if n == nm or n.endswith("::" + nm):
                return True
    return False


def find_calls(body, *names):
    out = []
    for bb, t in body.calls():
        c = t["call"]
        if "def" not in c:
            continue
        cands = [c["def"]]
        if c.get("res"):
            cands.append(c["res"]["def"])
        for n in cands:
            if any(n == nm or n.endswith("::" + nm) for nm in names):
                out.append((bb, t))
                break
    return out


def discr_of(cond):
    """If cond is discr(X) return X (expression of the scrutinee) else None."""
    if cond[0] == "discr":
        return cond[1]
    return None


def root_call_bb(e):
    """The bb of the call whose result e is derived from by moves, downcasts and fields (or None)."""
    while True:
        if e[0] == "call":
            return e[5] if len(e) > 5 else None
        if e[0] in ("downcast", "field", "deref", "ref"):
            e = e[1]
            continue
        return None


def variant_taken(ev, ty_hint=None):
    """For a branch event on discr(...) return the variant index taken, or ('not', [...])."""
    return ev.b


def bool_taken(ev):
    """For a boolean switch: True/False."""
    if isinstance(ev.b, tuple) and ev.b and ev.b[0] == "not":
        # otherwise-edge of [[0, x]] means true
        if ev.b[1] == [0]:
            return True
        if ev.b[1] == [1]:
            return False
        return None
    if ev.b == 0:
        return False
    if ev.b == 1:
        return True
    return None


def norm_cmp(cond, truth):
    """Normalise a comparison condition with its truth value to (op, a, b) with op in Lt, Le, Eq, Ne."""
    if cond[0] == "un" and cond[1] == "Not":
        return norm_cmp(cond[2], not truth)
    if cond[0] != "bin":
        return None
    op, a, b = cond[1], cond[2], cond[3]
    neg = {"Lt": "Ge", "Le": "Gt", "Gt": "Le", "Ge": "Lt", "Eq": "Ne", "Ne": "Eq"}
    if op not in neg:
        return None
    if not truth:
        op = neg[op]
    if op == "Gt":
        return ("Lt", b, a)
    if op == "Ge":
        return ("Le", b, a)
    return (op, a, b)
