"""Pretty printer for exported MIR bodies (debug aid): python3 rules/pp.py <facts-dir> <regex> [--mono]"""
import json, sys, re
sys.path.insert(0, __file__.rsplit('/', 1)[0])
from facts import Facts

def pp_op(o):
    if 'c' in o: return pp_pl(o['c'])
    if 'm' in o: return 'move ' + pp_pl(o['m'])
    k = o['k']
    if 'fn' in k: return 'fn:' + k['fn']['def']
    if 'int' in k: return f"{k['int']}_{k['ty']}"
    if 'uneval' in k: return 'U:' + k['uneval']
    return 'K:' + k.get('s', k.get('rtc', '?'))

def pp_pl(p):
    s = f"_{p['v']}"
    for e in p['p']:
        if e == '*': s = f"(*{s})"
        elif isinstance(e, dict) and 'f' in e: s += f".{e['f']}"
        elif isinstance(e, dict) and 'dc' in e: s = f"({s} as {e['name']})"
        else: s += f"[{e}]"
    return s

def pp_rv(r):
    if 'use' in r: return pp_op(r['use'])
    if 'ref' in r: return ('&mut ' if r['mut'] else '&') + pp_pl(r['ref'])
    if 'raw' in r: return '&raw ' + pp_pl(r['raw'])
    if 'bin' in r: return f"{r['bin']}({pp_op(r['a'])}, {pp_op(r['b'])})"
    if 'un' in r: return f"{r['un']}({pp_op(r['a'])})"
    if 'cast' in r: return f"{pp_op(r['a'])} as {r['ty']} ({r['cast']})"
    if 'discr' in r: return f"discr({pp_pl(r['discr'])})"
    if 'agg' in r:
        a = r['agg']
        nm = a if isinstance(a, str) else (a.get('adt', '') + '::' + a.get('vname', '') if 'adt' in a else json.dumps(a)[:60])
        return f"{nm}({', '.join(pp_op(o) for o in r['ops'])})"
    return json.dumps(r)[:100]

def pp_body(b, out=sys.stdout):
    w = lambda s: out.write(s + '\n')
    w(f"fn {b['id']}  argc={b['argc']} {'unsafe' if b['unsafe'] else ''} {b['span']}")
    for i, l in enumerate(b['locals']):
        if l['name'] or i <= b['argc']: w(f"   let _{i}: {l['ty']}  // {l['name']}")
    for i, bl in enumerate(b['blocks']):
        w(f"  bb{i}{' (cleanup)' if bl['cleanup'] else ''}:")
        for s in bl['st']:
            w(f"    {pp_pl(s['l']) if s['l'] else '_'} = {pp_rv(s['r'])}")
        t = bl['t']
        if isinstance(t, str): w('    ' + t)
        elif 'goto' in t: w(f"    goto bb{t['goto']}")
        elif 'switch' in t: w(f"    switch {pp_op(t['switch'])} {t['targets']} else bb{t['otherwise']}")
        elif 'call' in t:
            c = t['call']; nm = c.get('def', c.get('indirect'))
            res = c.get('res')
            w(f"    {pp_pl(t['dest']) if t['dest'] else '_'} = call {nm}<{','.join(c.get('args', []))}>({', '.join(pp_op(o) for o in t['ops'])}) -> bb{t['target']}  [res={res['def'] if res else None}]")
        elif 'assert' in t:
            a = t['assert']; w(f"    assert({pp_op(a['cond'])}=={a['expected']}, {a['msg']}({', '.join(pp_op(o) for o in a['ops'])})) -> bb{t['target']}")
        elif 'drop' in t: w(f"    drop {pp_pl(t['drop'])} -> bb{t['target']}")
        elif 'yield' in t: w(f"    yield {pp_op(t['yield'])} -> resume bb{t['resume']} drop {t['drop']}")
        else: w('     ' + json.dumps(t)[:120])

if __name__ == '__main__':
    f = Facts(sys.argv[1])
    rx = re.compile(sys.argv[2])
    mono = '--mono' in sys.argv
    src = f.mono.values() if mono else f.bodies
    for b in src:
        if rx.search(b['id']):
            pp_body(b)
