"""Property -> rule functions.  Every rule is a static rule on exported facts; see DESIGN.md section 4 for the clause each decides."""
import e1_layout
import e2_guards
import e3_io
import e5_formulas
import e6_generated
import e7_containers
import e8_portable
import e9_witness

VALIDATE_ROOTS = lambda n: n.startswith("__root_validate__")
EMPLACE_ROOTS = lambda n: n.startswith(("__root_emplace__", "__root_default__"))
ASSIGN_ROOTS = lambda n: n.startswith(("__root_assign__", "__root_emplace__", "__root_flexpush", "__root_flexapi__"))
RECV_ROOTS = lambda n: n.startswith(("__root_recv__", "__root_arecv__", "__root_iobuf"))
FLEX_ROOTS = lambda n: n.startswith(("__root_flexapi__", "__root_flexpush", "__root_size__K_FlexVec"))


import functools
import inspect
import types


def _once(fn):
    """A rule function runs once per report and argument list, however many bundles mention it."""
    @functools.wraps(fn)
    def w(F, R, *a, **kw):
        done = R.__dict__.setdefault("_rules_done", set())
        key = (fn.__module__, fn.__name__, repr(a), repr(sorted(kw.items())))
        if key in done:
            return None
        done.add(key)
        return fn(F, R, *a, **kw)
    return w


for _m in (e1_layout, e2_guards, e3_io, e5_formulas, e7_containers, e8_portable, e9_witness):
    for _n, _o in list(vars(_m).items()):
        if isinstance(_o, types.FunctionType) and _o.__module__ == _m.__name__ and not _n.startswith("_"):
            _ps = list(inspect.signature(_o).parameters)
            if _ps[:2] == ["F", "R"]:
                setattr(_m, _n, _once(_o))

_generated_rules = e6_generated.generated_rules


def _gen(F, R, which):
    """generated-code rules per kind, each kind at most once per report"""
    done = R.__dict__.setdefault("_gen_done", set())
    todo = set(which) - done
    done |= todo
    if todo:
        _generated_rules(F, R, todo)


e6_generated.generated_rules = _gen
e6_generated.tag_accept_rules = _once(e6_generated.tag_accept_rules)
e6_generated.hygiene_rules = _once(e6_generated.hygiene_rules)


def FOUNDATION(F, R):
    """What every property about values in buffers stands on (each quantifies over every type shape): the layout constants are the
    compiler's and the C rule's, views never exceed their bytes, size() is the extent, validators read what the views cover, portable
    scalars (usable as fields and as length/offset words) keep their byte order. A break here breaks the properties below it."""
    e1_layout.layout_rules(F, R)
    e5_formulas.base_formula_rules(F, R)
    e5_formulas.size_formula_rules(F, R)
    e5_formulas.gate_rules(F, R)
    e6_generated.generated_rules(F, R, {"ptr", "size", "validate"})
    e6_generated.tag_accept_rules(F, R)
    e6_generated.hygiene_rules(F, R)
    e7_containers.vec_string_validators(F, R)
    e7_containers.array_validator(F, R)
    e7_containers.flex_reader(F, R)
    e7_containers.flex_validator(F, R)
    e7_containers.flex_size(F, R)
    e8_portable.scalar_rules(F, R)


def VALIDATION(F, R):
    e5_formulas.gate_rules(F, R)
    e6_generated.generated_rules(F, R, {"validate"})
    e6_generated.tag_accept_rules(F, R)
    e7_containers.vec_string_validators(F, R)
    e7_containers.flex_reader(F, R)
    e7_containers.flex_validator(F, R)
    e7_containers.array_validator(F, R)


def SIZES(F, R):
    e5_formulas.size_formula_rules(F, R)
    e6_generated.generated_rules(F, R, {"size"})
    e7_containers.flex_size(F, R)


def VIEWS(F, R):
    e5_formulas.base_formula_rules(F, R)
    e6_generated.generated_rules(F, R, {"ptr"})
    e1_layout.layout_rules(F, R)


def EMPLACE(F, R):
    """How values get into a buffer: generated initialisers, the container emplacers, FlexVec's writers, the provided in-place methods.
    Attached to every property that quantifies over values / histories built through the safe API (a value whose constructor and view
    disagree breaks each of them); not to the byte-image properties C01, C02, C06, C09, C10, C16, C19."""
    e6_generated.generated_rules(F, R, {"init", "default"})
    e7_containers.filling_emplacers(F, R)
    e7_containers.empty_emplacers(F, R)
    e7_containers.flex_writers(F, R)
    e5_formulas.trait_method_rules(F, R)


def c01(F, R):
    R.explain("C01 (validation is total): E2 risky-site inventory over the monomorphic call graph of validate/from_bytes/from_mut_bytes of every corpus type: "
              "every assert, diverging call, panicking boundary call and unsafe call reachable is discharged by a checked guard, gate, constant or stated lemma; "
              "loops are finite-iterator or progress loops; the call graph is acyclic. Plus the gate shapes (G1), the per-variant size gate (G2), "
              "tag accept-sets (V2) and the bounded FlexVec chain walk.")
    e2_guards.guard_rules(F, R, VALIDATE_ROOTS, "validate", 300)
    e1_layout.layout_rules(F, R)  # the contract discharges rely on MIN_SIZE / DATA_MIN_SIZES / DATA_OFFSET being the real layout
    e5_formulas.base_formula_rules(F, R)
    e6_generated.generated_rules(F, R, {"validate"})
    e6_generated.tag_accept_rules(F, R)
    e7_containers.vec_string_validators(F, R)
    e7_containers.flex_reader(F, R)
    e7_containers.flex_validator(F, R)
    e7_containers.array_validator(F, R)
    e9_witness.witness_rules(F, R)
    FOUNDATION(F, R)


def c02(F, R):
    R.explain("C02 (from_bytes accepts well-formed encodings, consistent view): V1 validate reaches every constrained component (mono call graph vs shape manifest); "
              "V2 accept-set of every field-less enum validator = declared discriminants; V3/V4 string/vec predicates exact; V5 validated byte range = view byte range; "
              "F6 generated validators walk the declared field lists; checked wrapper construction. 'iff' and content equality are NOT decided.")
    e2_guards.reach_components(F, R)
    e6_generated.tag_accept_rules(F, R)
    e6_generated.generated_rules(F, R, {"validate", "ptr"})
    e7_containers.vec_string_validators(F, R)
    e7_containers.flex_validator(F, R)
    e7_containers.flex_reader(F, R)
    e7_containers.array_validator(F, R)
    e5_formulas.gate_rules(F, R)
    e5_formulas.trait_method_rules(F, R)
    e5_formulas.base_formula_rules(F, R)
    e9_witness.witness_rules(F, R)
    e1_layout.impl_bound_rules(F, R)
    trusted_ref_rules(F, R)
    FOUNDATION(F, R)


def c03(F, R):
    R.explain("C03 (emplace then read back): F6 the generated Init, accessors, validator and size() walk the same declared field list per variant with the shared "
              "position iterator; tag <-> variant agreement; payload from DATA_OFFSET over the range the view covers; sized values written whole at the slot start; "
              "container emplacers reset to empty first. Read-back equality of values is NOT decided.")
    e6_generated.generated_rules(F, R, {"init", "access", "validate", "size"})
    e5_formulas.base_formula_rules(F, R)
    e5_formulas.trait_method_rules(F, R)
    e7_containers.filling_emplacers(F, R)
    e7_containers.empty_emplacers(F, R)
    e7_containers.flex_writers(F, R)
    e1_layout.layout_rules(F, R)
    # "whose bytes pass validation": what an emplacer leaves unspecified (spare capacity) must not be inspected by the validators
    e7_containers.vec_string_validators(F, R)
    e7_containers.flex_validator(F, R)
    e7_containers.flex_reader(F, R)
    e7_containers.array_validator(F, R)
    EMPLACE(F, R)
    trusted_ref_rules(F, R)
    FOUNDATION(F, R)


def c04(F, R):
    R.explain("C04 (computed layout = compiler layout = C layout; a view never exceeds its slice): every layout constant the library computes compared with rustc's "
              "layout_of and with the C layout rule evaluated independently from the declared field lists, for every corpus type; the four position walkers compute one "
              "recurrence (F3); view-extent formulas of every ptr_from_bytes (F1) incl. the struct floor. Exact per type, grammar-bounded over programs.")
    e1_layout.layout_rules(F, R)
    e5_formulas.base_formula_rules(F, R)
    e6_generated.generated_rules(F, R, {"ptr"})
    e7_containers.flex_writers(F, R)  # item positions inside a FlexVec (strides, sealed extents) are part of the computed layout
    e9_witness.witness_rules(F, R)
    EMPLACE(F, R)
    FOUNDATION(F, R)


def c05(F, R):
    R.explain("C05 (size() is the exact extent): F2 size formulas of FlatVec/FlatString/generated structs and enums agree with the view formulas and round to ALIGN; "
              "F4 FlexVec extents (push, FromIterator, size) use one formula; size folds walk the declared lists. Value-level equality on every reachable state is NOT decided.")
    e5_formulas.size_formula_rules(F, R)
    e5_formulas.base_formula_rules(F, R)
    e6_generated.generated_rules(F, R, {"size", "ptr"})
    e7_containers.flex_size(F, R)
    e7_containers.flex_writers(F, R)
    EMPLACE(F, R)
    FOUNDATION(F, R)


def c06(F, R):
    R.explain("C06 (framing contract): ERRKIND at every error construction on validation paths: shortfalls are InsufficientSize, content errors are not, "
              "content checks are dominated by the size gates (a prefix is never a content error); receive loops keyed on exactly InsufficientSize. "
              "Same-content-for-prefix/extension is NOT decided.")
    e5_formulas.gate_rules(F, R)
    e6_generated.generated_rules(F, R, {"validate"})
    e7_containers.vec_string_validators(F, R)
    e7_containers.flex_reader(F, R)
    e7_containers.flex_validator(F, R)
    e3_io.recv_rules(F, R, "blocking")
    e3_io.recv_rules(F, R, "async")
    errkind_inventory(F, R)
    e1_layout.layout_rules(F, R)  # shortfall gates compare against MIN_SIZE / DATA_MIN_SIZES: they must be the real minimum sizes
    e5_formulas.base_formula_rules(F, R)
    FOUNDATION(F, R)


def errkind_inventory(F, R):
    """Every ErrorKind construction in the library is one of the classified sites (no new kind of error appears unclassified)."""
    from mir import Body
    sites = {}
    for b in F.bodies:
        if b["krate"] not in ("flatty_base", "flatty_containers", "flatty_portable"):
            continue
        if b.get("derived"):
            continue
        body = Body(b)
        for bb, i, s in body.assigns():
            r = s["r"]
            if "agg" in r and isinstance(r["agg"], dict) and r["agg"].get("adt") == "flatty_base::error::ErrorKind":
                sites.setdefault(b["def"], []).append(r["agg"]["vname"])
    allowed = {
        "flatty_base::utils::mem::check_align_and_min_size": ["BadAlign", "InsufficientSize"],
        "flatty_base::utils::iter::TypeIter::check_align_and_min_size": ["BadAlign", "InsufficientSize"],
        "<flatty_containers::vec::FlatVec<T, L> as flatty_base::traits::FlatValidate>::validate_unchecked": ["InsufficientSize"],
        "<flatty_containers::string::FlatString<L> as flatty_base::traits::FlatValidate>::validate_unchecked": ["InsufficientSize", "InvalidData"],
        "<flatty_containers::flex::DataIter<'a, T, L, D> as core::iter::traits::iterator::Iterator>::next": ["InsufficientSize", "InsufficientSize", "InvalidData", "InvalidData"],
        "<flatty_containers::flex::FromIterator<T, E, I> as flatty_base::emplacer::Emplacer<flatty_containers::flex::FlexVec<T, L>>>::emplace_unchecked": ["InsufficientSize", "InsufficientSize"],
        "flatty_containers::flex::FlexVec::<T, L>::push": ["InsufficientSize", "InsufficientSize"],
        # content error: the shortfall of a SEALED item (fixed extent) is re-classified, see K1.sealed-shortfall
        "<flatty_containers::flex::FlexVec<T, L> as flatty_base::traits::FlatValidate>::validate_unchecked::{closure#0}": ["InvalidData"],
        "<flatty_containers::vec::FromArray<T, N> as flatty_base::emplacer::Emplacer<flatty_containers::vec::FlatVec<T, L>>>::emplace_unchecked": ["InsufficientSize"],
        "<flatty_containers::vec::FromIterator<T, I> as flatty_base::emplacer::Emplacer<flatty_containers::vec::FlatVec<T, L>>>::emplace_unchecked": ["InsufficientSize"],
        "<flatty_containers::string::FromStr<S> as flatty_base::emplacer::Emplacer<flatty_containers::string::FlatString<L>>>::emplace_unchecked": ["InsufficientSize"],
        "<flatty_containers::string::FromStr<S> as flatty_base::emplacer::Emplacer<flatty_containers::string::FlatString<L>>>::emplace_unchecked::{closure#0}": ["InsufficientSize"],
        "<flatty_portable::bool_::Bool as flatty_base::traits::FlatValidate>::validate_unchecked": ["InvalidData"],
    }
    for d, kinds in sorted(sites.items()):
        want = allowed.get(d)
        R.ob("K2.errkind-inventory", d, "kinds", want is not None and sorted(want) == sorted(kinds),
             "%s constructs error kinds %s%s" % (d, sorted(kinds), "" if want is not None and sorted(want) == sorted(kinds) else
                                                 " -- not the classified set %s (new / changed error site: classify length vs alignment vs content)" % want))
    R.floor("K2", "error-constructing functions in the library", len(sites), 10)


def c07(F, R):
    R.explain("C07: structural clauses of blocking framed IO decided on the MIR of flatty_io: receive loop keyed on InsufficientSize, "
              "guard drop consumes size(), send writes size(), write loop slice/progress, window arithmetic, who-may-write window. "
              "Delivery under every chunking is NOT decided (schedule space).")
    e3_io.recv_rules(F, R, "blocking")
    e3_io.guard_rules(F, R)
    e3_io.write_loop_rules(F, R, "blocking")
    e3_io.read_rules(F, R, "blocking")
    e3_io.window_rules(F, R)
    e3_io.ctor_rules(F, R, "blocking")
    framing_rules(F, R)
    e9_witness.witness_rules(F, R)
    EMPLACE(F, R)
    FOUNDATION(F, R)


def framing_rules(F, R):
    """The receive loops are only as good as the framing contract of validate (C06 clauses): prefixes are InsufficientSize."""
    e5_formulas.gate_rules(F, R)
    e6_generated.generated_rules(F, R, {"validate", "size"})
    e7_containers.vec_string_validators(F, R)
    e7_containers.flex_reader(F, R)
    e7_containers.flex_validator(F, R)
    e5_formulas.size_formula_rules(F, R)
    e7_containers.flex_size(F, R)
    # the gates compare against MIN_SIZE / DATA_MIN_SIZES and the views against the layout constants: they must be the real ones
    e1_layout.layout_rules(F, R)
    e5_formulas.base_formula_rules(F, R)


def c08(F, R):
    R.explain("C08: async siblings: no state change on Pending, flush before success, advance on Ready(Ok(n)) only, position kept in the future. "
              "Interleavings/liveness are NOT decided.")
    e3_io.recv_rules(F, R, "async")
    e3_io.write_loop_rules(F, R, "async")
    e3_io.read_rules(F, R, "async")
    e3_io.guard_rules(F, R)
    e3_io.window_rules(F, R)
    e3_io.ctor_rules(F, R, "async")
    framing_rules(F, R)
    e9_witness.witness_rules(F, R)
    EMPLACE(F, R)
    FOUNDATION(F, R)


def c09(F, R):
    R.explain("C09: error discipline of the IO loops, blocking and async: errors escape, zero write is an error, bounded pipe calls, "
              "poisoning iff partial, reads side-effect free on error, zero read is Closed.")
    for v in ("blocking", "async"):
        e3_io.write_loop_rules(F, R, v)
        e3_io.read_rules(F, R, v)
        e3_io.recv_rules(F, R, v)
    e3_io.window_rules(F, R)
    # "nothing lost on retry / no corrupt stream" rests on the same framing contract as C07/C08: a prefix of a message is InsufficientSize
    # (recv keeps reading), and validate accepts exactly the bytes the view covers (the guard consumes size() <= occupied bytes)
    framing_rules(F, R)
    e9_witness.witness_rules(F, R)


def c10(F, R):
    R.explain("C10: receiver robustness: guard only after validate Ok; who-may-construct RecvGuard; OOM before empty read; loop keyed on InsufficientSize; "
              "E2 risky-site inventory from the recv / guard roots (validation reached from the IO entry points).")
    for v in ("blocking", "async"):
        e3_io.recv_rules(F, R, v)
        e3_io.read_rules(F, R, v)
    e3_io.guard_ctor_rules(F, R)
    e3_io.guard_rules(F, R)
    e3_io.window_rules(F, R)
    e2_guards.guard_rules(F, R, RECV_ROOTS, "recv", 100)
    framing_rules(F, R)
    e1_layout.layout_rules(F, R)
    e5_formulas.base_formula_rules(F, R)  # view extents: a message handed out lies inside the bytes received
    e6_generated.generated_rules(F, R, {"ptr"})
    e9_witness.witness_rules(F, R)
    FOUNDATION(F, R)


def c11(F, R):
    R.explain("C11 (FlatVec/FlatString as capacity-bounded Vec/String): the operations are stavec's (outside /repo); decided are flatty's mapping clauses: header layout "
              "for the (T, L) matrix, capacity = metadata computed by the in-bounds formula, validity predicate exact, single writer of the length word, Deref returns "
              "the inner vector only. Model equivalence under histories is NOT decided.")
    e5_formulas.base_formula_rules(F, R)
    e5_formulas.size_formula_rules(F, R)
    e5_formulas.trait_method_rules(F, R)
    e7_containers.vec_string_validators(F, R)
    e7_containers.empty_emplacers(F, R)
    e7_containers.filling_emplacers(F, R)
    e2_guards.guard_rules(F, R, lambda n: n.startswith("__root_validate__K_Flat") or n.startswith("__root_size__K_Flat"), "vecstring", 20)
    no_shadowing(F, R)
    container_cmp_rules(F, R)
    EMPLACE(F, R)
    FOUNDATION(F, R)


TRUSTED_REF_OK = {
    # self type of an `unsafe impl TrustedRef` -> why moving a value of that type does not move the bytes `as_ref()` yields
    "&'a T": "a reference: the pointee stays where it is",
    "&'a mut T": "a reference: the pointee stays where it is",
    "core::pin::Pin<P>": "a pinned pointer (P: Deref)",
    "core::cell::Ref<'a, T>": "a borrow guard: holds a reference",
    "core::cell::RefMut<'a, T>": "a borrow guard: holds a reference",
    "alloc::boxed::Box<T>": "heap allocation owned through a pointer",
    "alloc::rc::Rc<T>": "heap allocation owned through a pointer",
    "alloc::sync::Arc<T>": "heap allocation owned through a pointer",
    "alloc::vec::Vec<T>": "heap buffer owned through a pointer",
    "alloc::string::String": "heap buffer owned through a pointer",
    "alloc::ffi::c_str::CString": "heap buffer owned through a pointer",
    "flatty_containers::bytes::AlignedBytes": "heap allocation owned through a pointer",
    "stavec::generic::GenericVec<&'a mut [S], L>": "the container is a reference to the slots",
    "core::mem::manually_drop::ManuallyDrop<T>": "inline, but no AsRef<[u8]> exists for it, so it cannot be the pointer of a FlatWrap",
}


def trusted_ref_rules(F, R):
    """T1: FlatWrap checks alignment / validity once (on the by-value pointer argument) and re-maps the bytes unchecked at every Deref. That is
    sound only if moving the wrapper does not move the bytes. Who may promise that (`unsafe impl TrustedRef`) is a confirmed table of
    pointer-like types; an impl for a type that can hold its bytes inline (e.g. every `GenericVec<C, L>`, whose `C` may be an array) lets safe
    code obtain a misaligned reference by moving the wrapper."""
    ims = [im for im in F.impls if (im.get("trait") or "") == "flatty_containers::wrap::TrustedRef"]
    for im in ims:
        ok = im["self"] in TRUSTED_REF_OK
        R.ob("T1.trusted-ref-impls", im["self"], "address-stable", ok,
             "unsafe impl TrustedRef for %s: %s" % (im["self"], TRUSTED_REF_OK.get(im["self"], "NOT in the confirmed table of types whose bytes "
                                                                                    "stay in place when the value is moved (inline storage possible)")),
             where=im["span"])
    others = [im for im in F.impls if (im.get("trait") or "").endswith("::TrustedRef") and im not in ims]
    R.ob("T1.trusted-ref-impls", "flatty", "who-may-impl", not others and len(ims) >= 10,
         "TrustedRef is implemented only in flatty_containers::wrap (%d impls, floor 10)" % len(ims), where="containers/src/wrap.rs")


def no_shadowing(F, R):
    """FlatVec / FlatString add no inherent methods: every operation is the Deref target's (stavec's), so its refusal semantics are not overridden."""
    inh = []
    for d, f in F.fns.items():
        if f["krate"] != "flatty_containers":
            continue
        par = f["parent"]
        if par.startswith("flatty_containers::vec::FlatVec::<") or par.startswith("flatty_containers::string::FlatString::<") or \
           par in ("flatty_containers::vec::FlatVec", "flatty_containers::string::FlatString"):
            inh.append(d)
    impls = [im for im in F.impls if im["krate"] == "flatty_containers" and im["trait"] is None and
             im["self_adt"] in ("flatty_containers::vec::FlatVec", "flatty_containers::string::FlatString")]
    meths = [a["name"] for im in impls for a in im["assoc"] if a["kind"] == "fn"]
    R.ob("B1.no-inherent-methods", "FlatVec/FlatString", "inherent-fns", not inh and not meths,
         "FlatVec and FlatString define no inherent methods of their own (found %s): push/push_str/... are stavec's, unshadowed" % (sorted(inh) + meths),
         where="containers/src/vec.rs, string.rs")


def container_cmp_rules(F, R):
    """B3: equality / ordering of FlatVec and FlatString is the inner vector's (contents up to len), i.e. the derived impls on the single field --
    never the raw bytes (which include stale spare capacity and padding)."""
    from mir import Body
    from e5_formulas import canon, the_return
    import re as _re
    want = ("core::cmp::PartialEq", "core::cmp::Eq", "core::cmp::PartialOrd", "core::cmp::Ord")
    n = 0
    for adt in ("flatty_containers::vec::FlatVec", "flatty_containers::string::FlatString"):
        have = {}
        for im in F.impls:
            if im["krate"] == "flatty_containers" and im.get("self_adt") == adt and im["trait"] in want + ("core::hash::Hash",):
                have[im["trait"]] = im
        for tr in want:
            im = have.get(tr)
            short_adt = adt.split("::")[-1]
            if im is None:
                R.ob("B3.container-cmp", short_adt, tr, False, "%s implements %s (content comparison of the inner vector)" % (short_adt, tr))
                continue
            n += 1
            ok = bool(im.get("derived"))
            how = "derived on the single field (the inner stavec vector compares contents up to len)"
            if not ok and tr in ("core::cmp::PartialEq", "core::cmp::PartialOrd", "core::cmp::Ord"):
                meth = {"core::cmp::PartialEq": "eq", "core::cmp::PartialOrd": "partial_cmp", "core::cmp::Ord": "cmp"}[tr]
                bs = [b for b in F.bodies if b["krate"] == "flatty_containers" and (b.get("impl") or {}).get("trait") == tr and
                      (b.get("impl") or {}).get("self_adt") == adt and (b.get("impl") or {}).get("method") == meth]
                if len(bs) == 1:
                    rets = the_return(Body(bs[0]))
                    pat = r"^[\w:<> ,]*::%s\((\$self\.0|<[^()]*Deref>::deref\(\$self\)), (\$other\.0|<[^()]*Deref>::deref\(\$other\))\)$" % meth
                    ok = len(rets) == 1 and _re.match(pat, rets[0]) is not None
                    how = "hand-written: %s" % rets
            R.ob("B3.container-cmp", short_adt, tr, ok, "%s: %s is %s" % (short_adt, tr, how), where=im.get("span"))
    R.floor("B3", "comparison impls of FlatVec / FlatString", n, 8)


def c12(F, R):
    R.explain("C12 (FlexVec as a sequence): chain protocol reader = writers (0 ends, L::MAX marks the open last item, extents strictly below MAX and aligned), "
              "truncate/pop/clear cursor index, push/FromIterator slot values and destinations, size(). History equivalence is NOT decided.")
    e7_containers.flex_reader(F, R)
    e7_containers.flex_writers(F, R)
    e7_containers.flex_size(F, R)
    e7_containers.flex_validator(F, R)
    e7_containers.empty_emplacers(F, R)
    e6_generated.generated_rules(F, R, {"init"})  # in-place edits of items: a refused re-initialisation of an item keeps the item (tag after gate)
    e2_guards.guard_rules(F, R, FLEX_ROOTS, "flexapi", 50)
    e9_witness.witness_rules(F, R)
    EMPLACE(F, R)
    FOUNDATION(F, R)


def c13(F, R):
    R.explain("C13 (rejected operation leaves the container unchanged): no offset slot is written on any path of FlexVec::push that can still fail; "
              "refusals of FlatVec/FlatString are stavec's (trusted), flatty's emplacers map them to InsufficientSize. 'As if never happened' for later histories is NOT decided.")
    e7_containers.flex_writers(F, R)
    e7_containers.filling_emplacers(F, R)
    e8_portable.scalar_rules(F, R)  # `offset not representable` relies on L::from_usize being the native checked conversion for portable L
    no_shadowing(F, R)
    container_cmp_rules(F, R)
    EMPLACE(F, R)
    FOUNDATION(F, R)


def c14(F, R):
    R.explain("C14 (in-place mutation stays inside the value): E2 unsafe-site inventory from emplace/assign/push roots: every raw store is gated; "
              "view-extent formulas (F1) incl. struct floor; initialisers hand emplacers exactly the range the view covers; unchecked entry points need unsafe (witnesses).")
    e2_guards.guard_rules(F, R, ASSIGN_ROOTS, "mutate", 200, kinds={"unsafe-call", "raw-deref"})
    e5_formulas.base_formula_rules(F, R)
    e5_formulas.trait_method_rules(F, R)
    e6_generated.generated_rules(F, R, {"init", "ptr"})
    e7_containers.flex_writers(F, R)
    e7_containers.empty_emplacers(F, R)
    e1_layout.layout_rules(F, R)
    e9_witness.witness_rules(F, R)
    e7_containers.filling_emplacers(F, R)   # a refused tail emplacer must not leave a stale length under a new tag (R2.refusal-leaves-valid)
    composite_limit(F, R)                    # ... the remaining one-pass hole (nested enum tails) is a recorded finding here as well
    EMPLACE(F, R)
    FOUNDATION(F, R)


def c15(F, R):
    R.explain("C15 (emplacement into any buffer: right error or correct success): E2 inventory from new_in_place/default_in_place roots, gate shapes and dominance, "
              "per-variant list gate in generated Init, error kinds at the does-not-fit sites.")
    e2_guards.guard_rules(F, R, EMPLACE_ROOTS, "emplace", 300)
    e5_formulas.gate_rules(F, R)
    e5_formulas.base_formula_rules(F, R)
    e6_generated.generated_rules(F, R, {"init"})
    e7_containers.filling_emplacers(F, R)
    e7_containers.flex_writers(F, R)
    errkind_inventory(F, R)
    e1_layout.layout_rules(F, R)
    e7_containers.empty_emplacers(F, R)
    e5_formulas.trait_method_rules(F, R)
    e6_generated.generated_rules(F, R, {"ptr"})
    e9_witness.witness_rules(F, R)
    EMPLACE(F, R)
    trusted_ref_rules(F, R)
    FOUNDATION(F, R)


def c16(F, R):
    R.explain("C16 (portable scalars): complete structural decision: layout (align 1, size N), endianness of from_native/to_native per BE, alias tables, "
              "delegation of every trait method of all 16 instantiations to the matching native operation, derives on the byte array, Bool accept-set.")
    e8_portable.scalar_rules(F, R)
    e6_generated.tag_accept_rules(F, R)


def c17(F, R):
    R.explain("C17 (portable composites): every corpus type implementing Portable has ALIGN 1 and no padding; Portable impls require Portable parameters (incl. the tag); "
              "compile-fail witnesses for the negative cases.")
    e1_layout.portable_rules(F, R)
    e7_containers.flex_writers(F, R)  # item strides are rounded to ALIGN (= 1 for portable vectors): no padding bytes between items
    e7_containers.empty_emplacers(F, R)
    e8_portable.scalar_rules(F, R)
    SIZES(F, R)  # size() rounds to ALIGN (= 1 for portable types): no padding is ever counted or sent
    e1_layout.layout_rules(F, R)
    e9_witness.witness_rules(F, R)
    e1_layout.impl_bound_rules(F, R)
    EMPLACE(F, R)
    FOUNDATION(F, R)


def c18(F, R):
    R.explain("C18 (failed assign_in_place leaves a valid value): R1 tag stored only after the per-variant size gate; R2 check-before-reset in FromArray/FromStr; "
              "R3 FlexVec FromIterator resets first and marks/seals back to back; assign_in_place returns the error with no further store. "
              "Composite initialisers that fail in a later field after earlier fields were written are a recorded design limit (known finding).")
    e6_generated.generated_rules(F, R, {"init"})
    e7_containers.filling_emplacers(F, R)
    e7_containers.flex_writers(F, R)
    e7_containers.empty_emplacers(F, R)
    e5_formulas.trait_method_rules(F, R)
    VALIDATION(F, R)  # "still a valid value": what the validators demand is what the emplacers must leave behind
    composite_limit(F, R)
    EMPLACE(F, R)
    FOUNDATION(F, R)


def composite_limit(F, R):
    """R4: generated Init emplacers write earlier fields before a later (fallible, unsized) field emplacer can fail."""
    from e6_generated import corpus_body
    man = F.manifest["types"]
    n = 0
    for nm, m in sorted(man.items()):
        d = m.get("def")
        if not d or d["sized"] or d.get("generic"):
            continue
        lists = [d["fields"]] if d["kind"] == "struct" else [v["fields"] for v in d["variants"]]
        risky = any(len(fs) >= 1 and not fs[-1]["sized"] and (len(fs) > 1 or d["kind"] == "enum") for fs in lists)
        if risky:
            n += 1
    # one generic finding (same site for every generated type): keyed on the macro template, not on corpus types
    R.ob("R4.composite-one-pass", "<generated>::Init::emplace_unchecked", "later-field-failure", n == 0,
         "generated initialisers are one-pass: %d corpus types have a fallible trailing field emplacer that runs after the tag / earlier fields were already overwritten; "
         "if it fails (content does not fit) the target keeps the new tag and leading fields over the old tail" % n,
         where="macros/src/items/init.rs")


def c19(F, R):
    R.explain("C19 (content errors are reported at the byte that is wrong): ERR-OFFSET: at every nesting level (struct fields, enum payload, vector elements, array "
              "elements, FlexVec items and slots, string) the nested error passes Error::offset with the normal form of that level's position.")
    e5_formulas.trait_method_rules(F, R)
    e6_generated.generated_rules(F, R, {"validate"})
    e7_containers.vec_string_validators(F, R)
    e7_containers.array_validator(F, R)
    e7_containers.flex_validator(F, R)
    e7_containers.flex_reader(F, R)
    e5_formulas.base_formula_rules(F, R)
    e1_layout.layout_rules(F, R)
    FOUNDATION(F, R)


def c20(F, R):
    R.explain("C20 (default_in_place): blanket FlatDefault returns Default::default(); Empty emplacers store zero and read nothing; generated default emplacers are "
              "per-field defaults in order / the variant the source marks #[default]; sized types derive Default. Deep value equality is NOT decided.")
    e5_formulas.trait_method_rules(F, R)
    e5_formulas.base_formula_rules(F, R)
    e6_generated.generated_rules(F, R, {"default", "init"})
    e7_containers.empty_emplacers(F, R)
    e2_guards.guard_rules(F, R, lambda n: n.startswith("__root_default__"), "default", 100)
    VALIDATION(F, R)  # "the result validates"
    SIZES(F, R)       # "has the minimal size() for that state"
    e7_containers.filling_emplacers(F, R)
    e7_containers.flex_writers(F, R)
    EMPLACE(F, R)
    FOUNDATION(F, R)


errkind_inventory = _once(errkind_inventory)
no_shadowing = _once(no_shadowing)
trusted_ref_rules = _once(trusted_ref_rules)
container_cmp_rules = _once(container_cmp_rules)
composite_limit = _once(composite_limit)
framing_rules = _once(framing_rules)

PROPS = {
    "C01": [c01], "C02": [c02], "C03": [c03], "C04": [c04], "C05": [c05], "C06": [c06], "C07": [c07], "C08": [c08], "C09": [c09], "C10": [c10],
    "C11": [c11], "C12": [c12], "C13": [c13], "C14": [c14], "C15": [c15], "C16": [c16], "C17": [c17], "C18": [c18], "C19": [c19], "C20": [c20],
}
