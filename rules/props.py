"""Property -> rule functions."""
import e3_io
import e1_layout


def c07(F, R):
    R.explain("C07: structural clauses of blocking framed IO decided on the MIR of flatty_io: receive loop keyed on InsufficientSize, "
              "guard drop consumes size(), send writes size(), write loop slice/progress, window arithmetic, who-may-write window. "
              "Delivery under every chunking is NOT decided (schedule space).")
    e3_io.recv_rules(F, R, "blocking")
    e3_io.guard_rules(F, R)
    e3_io.write_loop_rules(F, R, "blocking")
    e3_io.read_rules(F, R, "blocking")
    e3_io.window_rules(F, R)


def c08(F, R):
    R.explain("C08: async siblings: no state change on Pending, flush before success, advance on Ready(Ok(n)) only, position kept in the future. "
              "Interleavings/liveness are NOT decided.")
    e3_io.recv_rules(F, R, "async")
    e3_io.write_loop_rules(F, R, "async")
    e3_io.read_rules(F, R, "async")
    e3_io.guard_rules(F, R)
    e3_io.window_rules(F, R)


def c09(F, R):
    R.explain("C09: error discipline of the IO loops, blocking and async: errors escape, zero write is an error, bounded pipe calls, "
              "poisoning iff partial, reads side-effect free on error, zero read is Closed.")
    for v in ("blocking", "async"):
        e3_io.write_loop_rules(F, R, v)
        e3_io.read_rules(F, R, v)
        e3_io.recv_rules(F, R, v)


def c10(F, R):
    R.explain("C10: receiver robustness: guard only after validate Ok; who-may-construct RecvGuard; OOM before empty read; loop keyed on InsufficientSize.")
    for v in ("blocking", "async"):
        e3_io.recv_rules(F, R, v)
        e3_io.read_rules(F, R, v)
    e3_io.guard_ctor_rules(F, R)
    e3_io.guard_rules(F, R)
    e3_io.window_rules(F, R)


def c04(F, R):
    R.explain("C04: every layout constant the library computes (ALIGN, SIZE, MIN_SIZE, DATA_OFFSET, DATA_MIN_SIZES, LAST_FIELD_OFFSET, "
              "container DATA_OFFSET/OFFSET_SIZE) compared with rustc's layout_of and with the C layout rule evaluated independently "
              "from the declared field lists, for every corpus type; exact per type, grammar-bounded over programs.")
    e1_layout.layout_rules(F, R)


def c17(F, R):
    R.explain("C17: every corpus type implementing Portable has ALIGN 1 and no padding; Portable impls require Portable parameters.")
    e1_layout.portable_rules(F, R)


PROPS = {
    "C04": [c04],
    "C17": [c17],
    "C07": [c07],
    "C08": [c08],
    "C09": [c09],
    "C10": [c10],
}
