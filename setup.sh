#!/bin/bash
# Build the facts driver (nightly, rustc_private, no cargo dependencies). Offline.
set -e
cd "$(dirname "$0")"
mkdir -p .work
( cd driver && CARGO_NET_OFFLINE=true cargo build --release --offline )
test -x driver/target/release/flatty-facts
echo "setup ok"
