#!/usr/bin/env python3
"""Confirm seeded defects in a scratch worktree of /repo HEAD: suite passes with the change, demo fails with it and passes without.
usage: confirm_seeds.py <out.json> [Cxx/mN ...]"""
import json, os, re, subprocess, sys, glob, shutil
OUT = sys.argv[1]
seeds = sys.argv[2:]
WT = "/tmp/confirm/wt"
TGT = "/tmp/confirm/tgt"
os.makedirs("/tmp/confirm", exist_ok=True)
def sh(cmd, cwd=None, timeout=1800):
    r = subprocess.run(cmd, shell=True, cwd=cwd, capture_output=True, text=True, timeout=timeout, env=dict(os.environ, CARGO_TARGET_DIR=TGT, CARGO_NET_OFFLINE="true"))
    return r.returncode, (r.stdout + r.stderr)
subprocess.run("git -C /repo worktree remove --force %s 2>/dev/null; rm -rf %s" % (WT, WT), shell=True)
rc, o = sh("git -C /repo worktree add --detach %s %s" % (WT, os.environ.get("BASE", "HEAD")))
assert rc == 0, o
res = {}
if os.path.exists(OUT):
    res = json.load(open(OUT))
def clean():
    sh("git checkout -- . && git clean -fdq", cwd=WT)
def suite():
    rc, o = sh("cargo test --workspace --offline -j8 2>&1 | grep -E '^test result|FAILED|^error' ", cwd=WT)
    passed = sum(int(m) for m in re.findall(r"test result: ok\. (\d+) passed", o))
    failed = "FAILED" in o or re.search(r"^error", o, re.M) is not None
    return (not failed), passed, o[-600:]
for sd in seeds:
    pid, m = sd.split("/")
    d = "%s/%s.out/%s" % (os.environ.get("SRC", "/tmp/seed"), pid, m)
    patch = d + "/patch.diff"
    if sd.startswith("adapted:"):
        pass
    rec = {"seed": sd}
    clean()
    rc, o = sh("git apply %s" % patch, cwd=WT)
    if rc != 0:
        rc, o = sh("patch -p1 -F3 -s < %s" % patch, cwd=WT)
        sh("find . -name '*.orig' -not -path './target/*' -delete", cwd=WT)
        rec["applied"] = "fuzz" if rc == 0 else "no"
    else:
        rec["applied"] = "clean"
    if rec["applied"] == "no":
        res[sd] = rec
        json.dump(res, open(OUT, "w"), indent=1)
        continue
    ok, n, tail = suite()
    rec["suite_with_patch"] = {"ok": ok, "passed": n}
    # demo placement
    run = ""
    for f in glob.glob(d + "/demo/RUN.md"):
        run = open(f).read()
    dest, pkg = "tests/tests", "flatty-tests"
    if "io/tests" in run:
        dest, pkg = "io/tests", "flatty-io"
    elif "portable/tests" in run:
        dest, pkg = "portable/tests", "flatty-portable"
    elif "containers/tests" in run:
        dest, pkg = "containers/tests", "flatty-containers"
    os.makedirs(os.path.join(WT, dest), exist_ok=True)
    tests = []
    for f in glob.glob(d + "/demo/*"):
        if f.endswith(".md"):
            continue
        if os.path.isdir(f):
            shutil.copytree(f, os.path.join(WT, dest, os.path.basename(f)), dirs_exist_ok=True)
        else:
            shutil.copy(f, os.path.join(WT, dest))
            if f.endswith(".rs"):
                tests.append(os.path.basename(f)[:-3])
    def demo():
        out = {}
        for t in tests:
            rc, o = sh("cargo test -p %s --test %s --offline -j8 2>&1 | tail -5" % (pkg, t), cwd=WT)
            out[t] = "pass" if (rc == 0 and "test result: ok" in o and "FAILED" not in o) else "fail"
        return out
    rec["demo_with_patch"] = demo()
    # revert library change, keep demo
    sh("git checkout -- .", cwd=WT)
    rec["demo_without_patch"] = demo()
    rec["confirmed"] = bool(rec["suite_with_patch"]["ok"] and tests and any(v == "fail" for v in rec["demo_with_patch"].values())
                            and all(v == "pass" for v in rec["demo_without_patch"].values()))
    res[sd] = rec
    json.dump(res, open(OUT, "w"), indent=1)
    print(sd, rec, flush=True)
clean()
subprocess.run("git -C /repo worktree remove --force %s; rm -rf %s" % (WT, TGT), shell=True)
