#!/usr/bin/env python3
"""Audit: which library functions does no rule of any property look at?  (reads evidence/*.json written by the checks + the cached facts)
usage: fn_coverage.py  (after running all 20 checks on the same tier)"""
import json, glob, os, sys
sys.path.insert(0, "/verif/rules")
from facts import Facts
import framework
fdir, cached, man = framework.ensure_facts("quick")
F = Facts(fdir)
lib = ("flatty_base", "flatty_containers", "flatty_portable", "flatty_io")
allf = {}
for b in F.bodies:
    if b["krate"] in lib:
        allf[b["def"]] = b
KEY = "library_functions_under_shape_rules" if "--shape" in sys.argv else "library_functions_inspected"
seen = {}
for f in sorted(glob.glob("/verif/evidence/C??.json")):
    e = json.load(open(f))
    for d in e["coverage"].get(KEY, []):
        seen.setdefault(d, []).append(e["property_id"])
un = sorted(set(allf) - set(seen))
print("library bodies: %d, inspected by at least one rule: %d, never inspected: %d" % (len(allf), len(set(allf) & set(seen)), len(un)))
for d in un:
    print("  ", allf[d]["krate"], d, allf[d].get("span"))
