#!/usr/bin/env python3
"""Write the sub-agent prompts for a round of seeded changes.
usage: make_prompts.py <round-dir e.g. /tmp/seed3> <template prompt of an earlier round, e.g. /tmp/seed2/PROMPT_C07.txt is NOT needed>
The prompt contains only the property text, the scratch worktree path and one-line summaries of the agents' own earlier mutants (so that
they look elsewhere) -- nothing from /verif."""
import json, os, sys, glob
ROOT = sys.argv[1]
props = [json.loads(l) for l in open("/verif/properties.jsonl")]
os.makedirs(ROOT, exist_ok=True)
TEMPLATE = open(os.path.join(os.path.dirname(os.path.abspath(__file__)), "prompt_template.txt")).read()
for p in props:
    pid = p["id"]
    tried = []
    for d in sorted(glob.glob("/verif/seeded/%s-r*-m*/meta.json" % pid)):
        m = json.load(open(d))
        files = ", ".join(m.get("files_touched") or [])
        tried.append("- %s: %s" % (files, (m.get("summary") or "")[:300].replace("\n", " ")))
    out = os.path.join(ROOT, pid + ".out")
    os.makedirs(out, exist_ok=True)
    pj = {k: p[k] for k in ("id", "title", "statement", "quantifier", "why_tests_cant", "anchors") if k in p}
    json.dump(pj, open(os.path.join(out, "property.json"), "w"), indent=1)
    txt = TEMPLATE.replace("@WT@", os.path.join(ROOT, pid)).replace("@OUT@", out).replace("@PID@", pid) \
        .replace("@PROPERTY@", json.dumps(pj, indent=1)).replace("@TRIED@", "\n".join(tried) if tried else "(nothing yet)")
    open(os.path.join(ROOT, "PROMPT_%s.txt" % pid), "w").write(txt)
print("prompts written to", ROOT)
