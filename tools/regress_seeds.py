#!/usr/bin/env python3
"""Re-run every stored seeded change against the check of its own property (apply to /repo, check, revert) and report the ones not reported.
usage: regress_seeds.py [r1 r2 ...]   -> seeded/regress.json"""
import glob, json, os, re, subprocess, sys
tags = sys.argv[1:] or ["r1", "r2", "r3"]
res = {}
for tag in tags:
    for d in sorted(glob.glob("/verif/seeded/C??-%s-m?" % tag)):
        name = os.path.basename(d)
        pid = name[:3]
        patch = d + "/patch_head.diff" if os.path.exists(d + "/patch_head.diff") else d + "/patch.diff"
        r = subprocess.run(["/verif/tools/try_seed.sh", patch, pid], capture_output=True, text=True)
        out = r.stdout + r.stderr
        rules = sorted(set(re.findall(r"^  rule ([\w\.\-]+):", out, re.M)))
        res[name] = {"applies": "PATCH DOES NOT APPLY" not in out, "detected": bool(rules), "rules": rules}
        print(name, res[name], flush=True)
json.dump(res, open("/verif/seeded/regress.json", "w"), indent=1)
und = [k for k, v in res.items() if v["applies"] and not v["detected"]]
print("NOT DETECTED:", und)
