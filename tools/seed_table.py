#!/usr/bin/env python3
"""Print the markdown table of a round of stored seeds (for DESIGN.md section 9). usage: seed_table.py r2"""
import json, glob, sys
tag = sys.argv[1]
print("| seed | change | result on current /repo | rules that fired |")
print("|---|---|---|---|")
for d in sorted(glob.glob("/verif/seeded/C??-%s-m?/meta.json" % tag)):
    m = json.load(open(d))
    det = m["detection_on_current_repo"]
    res = "detected" if det["detected"] else ("applies, NOT detected" if det["applies"] else "does not apply")
    summ = (m.get("summary") or "").replace("|", "/").replace("\n", " ")[:150]
    print("| %s-%s-%s | %s | %s | %s |" % (m["property"], tag, m["mutant"], summ, res, ", ".join(det["rules_fired"])[:120]))
