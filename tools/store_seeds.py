#!/usr/bin/env python3
"""Store confirmed seeded defects under /verif/seeded/<prop>-<mN>/ and record which checks detect them."""
import json, os, re, shutil, subprocess, sys
SRC = sys.argv[1]            # /tmp/seed or /tmp/seed2
TAG = sys.argv[2]            # r1 / r2
RES_HEAD = json.load(open(sys.argv[3])) if os.path.exists(sys.argv[3]) else {}
RES_PIN = json.load(open(sys.argv[4])) if len(sys.argv) > 4 and os.path.exists(sys.argv[4]) else {}
ADAPT = {"C01/m3": "C01_m3_string_ceil", "C14/m1": "C01_m3_string_ceil", "C10/m2": "C10_m2_string_nofloor", "C05/m3": "C05_m3_string_size_chars",
         "C06/m3": "C06_m3_vec_validate_all_slots", "C12/m2": "C12_m2_last_by_length", "C13/m3": "C13_m3_push_room_le", "C18/m1": "C18_m1_tag_last",
         "C01/m1": "C01_m1_tag_accepts_n", "C02/m1": "C01_m1_tag_accepts_n", "C10/m1": "C01_m1_tag_accepts_n"} if TAG == "r1" else {}
if TAG == "r4":
    ADAPT = {"C01/m2": "r4_C01_m2_min_size_by_tag_value", "C19/m1": "r4_C19_m1_flex_item_shift_lsize", "C20/m2": "r4_C20_m2_vec_validate_all_slots"}
if TAG == "r6":
    ADAPT = {"C17/m3": "r6_C17_m3_tag_by_position"}
MANUAL = {("C%02d/m%d" % (p, m)): True for p in (8, 9) for m in (1, 2, 3)} if TAG == "r4" else \
    {"C08/m1": True, "C08/m2": True, "C08/m3": True} if TAG == "r1" else \
    ({"C04/m1": True, "C04/m2": True, "C04/m3": True, "C17/m2": True} if TAG == "r2" else
     ({"C13/m1": True, "C13/m2": True, "C13/m3": True, "C17/m3": True} if TAG == "r5" else {}))  # demo layouts the script does not place; run by hand
out_root = "/verif/seeded"
summary = []
for pid in ["C%02d" % i for i in range(1, 21)]:
    for m in ("m1", "m2", "m3", "m4"):
        d = "%s/%s.out/%s" % (SRC, pid, m)
        if not os.path.exists(d + "/patch.diff"):
            continue
        sd = "%s/%s" % (pid, m)
        rh, rp = RES_HEAD.get(sd, {}), RES_PIN.get(sd, {})
        confirmed_head = bool(rh.get("confirmed")) or MANUAL.get(sd, False)
        confirmed_pin = bool(rp.get("confirmed"))
        if not (confirmed_head or confirmed_pin):
            summary.append((sd, "NOT KEPT (not confirmed)", ""))
            continue
        dst = "%s/%s-%s-%s" % (out_root, pid, TAG, m)
        shutil.rmtree(dst, ignore_errors=True)
        os.makedirs(dst)
        shutil.copy(d + "/patch.diff", dst + "/patch.diff")
        if os.path.isdir(d + "/demo"):
            shutil.copytree(d + "/demo", dst + "/demo")
        meta = {}
        try:
            meta = json.load(open(d + "/meta.json"))
        except Exception:
            pass
        # detection on the current /repo
        patch_for_head = dst + "/patch.diff"
        note = ""
        if sd in ADAPT:
            shutil.copy("/verif/seeded/_adapted/%s.diff" % ADAPT[sd], dst + "/patch_head.diff")
            patch_for_head = dst + "/patch_head.diff"
            note = "original patch is against an earlier tree and no longer applies after later fix: commits; patch_head.diff is the same change re-expressed on the current tree"
        r = subprocess.run(["/verif/tools/try_seed.sh", patch_for_head, pid], capture_output=True, text=True)
        outp = r.stdout + r.stderr
        rules = sorted(set(re.findall(r"^  rule ([\w\.\-]+):", outp, re.M)))
        applies = "PATCH DOES NOT APPLY" not in outp
        detected = bool(rules)
        j = {
            "property": pid, "round": TAG, "mutant": m,
            "summary": meta.get("summary"), "breaks": meta.get("breaks"), "needs_to_manifest": meta.get("needs_to_manifest"),
            "files_touched": meta.get("files_touched"),
            "made_against": "pinned tree 4af8f1a" if TAG == "r1" else ("/repo at 5af399e" if TAG in ("r2", "r3", "r4") else ("/repo at b966117" if TAG == "r5" else ("/repo at ffdac23" if TAG == "r6" else ("/repo at 152367a" if TAG in ("r7", "r8", "r9") else "/repo HEAD at the time")))),
            "confirmed_by_me": {
                "how": "tools/confirm_seeds.py in a scratch worktree: cargo test --workspace --offline with the patch (must pass), demo with the patch (must fail), demo without (must pass)",
                "on_fixed_tree": rh if rh else ("manual run, see DESIGN.md" if MANUAL.get(sd) else None),
                "on_pinned_tree": rp if rp else None,
            },
            "note": note,
            "detection_on_current_repo": {"cmd": "tools/try_seed.sh %s %s" % (os.path.basename(patch_for_head), pid), "applies": applies,
                                          "detected": detected, "rules_fired": rules},
        }
        json.dump(j, open(dst + "/meta.json", "w"), indent=1)
        summary.append((sd, "detected" if detected else ("applies, NOT detected" if applies else "does not apply"), ",".join(rules)[:150]))
        print(summary[-1], flush=True)
json.dump(summary, open("/verif/seeded/summary_%s.json" % TAG, "w"), indent=1)
