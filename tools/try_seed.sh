#!/bin/bash
# usage: try_seed.sh <patch.diff> <Cxx> [<Cyy>...]   -- apply a seeded defect to /repo, run checks, always revert.
PATCH="$(realpath "$1")"; shift
cd /repo || exit 2
if [ -n "$(git status --porcelain)" ]; then echo "/repo not clean"; exit 2; fi
if ! git apply "$PATCH" 2>/dev/null; then
  if ! patch -p1 -F3 -s < "$PATCH"; then echo "PATCH DOES NOT APPLY: $PATCH"; git checkout -- . ; git clean -fdq; exit 3; fi
  find . -name '*.orig' -not -path './target/*' -delete
fi
RC=0
for P in "$@"; do
  OUT=$(cd /verif && VERIF_EVIDENCE_DIR=/verif/.work/seed-evidence ./check "$P" 2>&1); R=$?
  echo "$OUT" | grep -E "^(VIOLATION|  rule|KNOWN|C[0-9]+:)" | cut -c1-260
  [ $R -ne 0 ] && RC=1
done
git checkout -- . ; git clean -fdq
exit $RC
