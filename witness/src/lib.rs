//! E7: compile-fail witnesses, each paired with a compiling twin that differs by the offending line only.
//! Doctests are compiled (`cargo +nightly test --doc`), never run (`no_run`).
//! Naming: `wNN_<what>` is the witness (must fail with the stated error code), `tNN_<what>` its twin (must compile).
#![allow(dead_code)]

/// Common prelude used by the io witnesses.
#[doc(hidden)]
pub mod io_prelude {
    pub use flatty::{flat, prelude::*, FlatVec};
    pub use flatty_io::{Receiver, Sender};
    pub struct Src;
    impl std::io::Read for Src {
        fn read(&mut self, _: &mut [u8]) -> std::io::Result<usize> { Ok(0) }
    }
    pub struct Sink;
    impl std::io::Write for Sink {
        fn write(&mut self, b: &[u8]) -> std::io::Result<usize> { Ok(b.len()) }
        fn flush(&mut self) -> std::io::Result<()> { Ok(()) }
    }
}

/// C07/C08/C10: at most one received message is borrowed at a time.
/// ```compile_fail,E0499
/// use flatty_witness::io_prelude::*;
/// let mut r = Receiver::<u32, _>::io(Src, 16);
/// let a = r.recv().unwrap();
/// let b = r.recv().unwrap(); // second guard while the first is alive
/// let _ = (*a, *b);
/// ```
pub fn w01_two_recv_guards() {}
/// ```no_run
/// use flatty_witness::io_prelude::*;
/// let mut r = Receiver::<u32, _>::io(Src, 16);
/// let a = r.recv().unwrap();
/// let x = *a;
/// drop(a);
/// let b = r.recv().unwrap();
/// let _ = (x, *b);
/// ```
pub fn t01_two_recv_guards() {}

/// C07/C08: an uninitialised send guard cannot be sent.
/// ```compile_fail,E0599
/// use flatty_witness::io_prelude::*;
/// let mut s = Sender::<u32, _>::io(Sink, 16);
/// let g = s.alloc().unwrap();
/// g.send().unwrap(); // `send` exists only on the initialised guard
/// ```
pub fn w02_send_uninit() {}
/// ```no_run
/// use flatty_witness::io_prelude::*;
/// let mut s = Sender::<u32, _>::io(Sink, 16);
/// let g = s.alloc().unwrap();
/// g.new_in_place(7u32).unwrap().send().unwrap();
/// ```
pub fn t02_send_uninit() {}

/// C10: a RecvGuard cannot be forged outside the crate (constructor is crate-private).
/// ```compile_fail,E0624
/// use flatty_witness::io_prelude::*;
/// let mut buf = flatty_io::IoBuffer::new(Src, 16, 4);
/// let g = flatty_io::blocking::RecvGuard::<u32, _>::new(&mut buf);
/// let _ = *g;
/// ```
pub fn w03_forge_recv_guard() {}
/// ```no_run
/// use flatty_witness::io_prelude::*;
/// let buf = flatty_io::IoBuffer::new(Src, 16, 4);
/// let mut r = Receiver::<u32, _>::new(buf);
/// let g = r.recv().unwrap();
/// let _ = *g;
/// ```
pub fn t03_forge_recv_guard() {}

/// C07/C09: the window / poison state of an IoBuffer cannot be touched from outside.
/// ```compile_fail,E0616
/// use flatty_witness::io_prelude::*;
/// let mut buf = flatty_io::IoBuffer::new(Src, 16, 4);
/// buf.poisoned = false;
/// ```
pub fn w04_poison_private() {}
/// ```no_run
/// use flatty_witness::io_prelude::*;
/// let buf = flatty_io::IoBuffer::new(Src, 16, 4);
/// let _ = buf.len();
/// ```
pub fn t04_poison_private() {}

/// C02/C14: a view over unvalidated bytes needs `unsafe`.
/// ```compile_fail,E0133
/// use flatty::{prelude::*, FlatVec};
/// let bytes = [0u8; 8];
/// let v = FlatVec::<u8, u16>::from_bytes_unchecked(&bytes);
/// let _ = v.len();
/// ```
pub fn w05_from_bytes_unchecked() {}
/// ```no_run
/// use flatty::{prelude::*, FlatVec};
/// let bytes = [0u8; 8];
/// let v = unsafe { FlatVec::<u8, u16>::from_bytes_unchecked(&bytes) };
/// let _ = v.len();
/// ```
pub fn t05_from_bytes_unchecked() {}

/// C01/C02: validation without the size/alignment gate needs `unsafe`.
/// ```compile_fail,E0133
/// use flatty::{prelude::*, FlatVec};
/// let bytes = [0u8; 8];
/// let _ = FlatVec::<u8, u16>::validate_unchecked(&bytes);
/// ```
pub fn w06_validate_unchecked() {}
/// ```no_run
/// use flatty::{prelude::*, FlatVec};
/// let bytes = [0u8; 8];
/// let _ = FlatVec::<u8, u16>::validate(&bytes);
/// ```
pub fn t06_validate_unchecked() {}

/// C14/C15: emplacement without the gate needs `unsafe`.
/// ```compile_fail,E0133
/// use flatty::{prelude::*, Emplacer};
/// let mut bytes = [0u8; 8];
/// let _ = 7u32.emplace_unchecked(&mut bytes);
/// ```
pub fn w07_emplace_unchecked() {}
/// ```no_run
/// use flatty::{prelude::*, Emplacer};
/// let mut bytes = [0u8; 8];
/// let _ = 7u32.emplace(&mut bytes);
/// ```
pub fn t07_emplace_unchecked() {}

/// C14: raw mutable access to a value's bytes needs `unsafe`.
/// ```compile_fail,E0133
/// use flatty::{prelude::*, FlatVec, AlignedBytes};
/// let mut b = AlignedBytes::new(8, 2);
/// let v = FlatVec::<u8, u16>::default_in_place(&mut b).unwrap();
/// v.as_mut_bytes()[0] = 0xff;
/// ```
pub fn w08_as_mut_bytes() {}
/// ```no_run
/// use flatty::{prelude::*, FlatVec, AlignedBytes};
/// let mut b = AlignedBytes::new(8, 2);
/// let v = FlatVec::<u8, u16>::default_in_place(&mut b).unwrap();
/// let _ = v.as_bytes()[0];
/// ```
pub fn t08_as_mut_bytes() {}

/// C17: a portable struct cannot hold a native multi-byte field.
/// ```compile_fail,E0277
/// use flatty::flat;
/// #[flat(portable = true)]
/// struct P { a: u8, b: u32 }
/// ```
pub fn w09_portable_native_field() {}
/// ```no_run
/// use flatty::{flat, portable::le};
/// #[flat(portable = true)]
/// struct P { a: u8, b: le::U32 }
/// ```
pub fn t09_portable_native_field() {}

/// C17: a portable enum cannot have a native multi-byte tag.
/// ```compile_fail,E0277
/// use flatty::{flat, portable::le};
/// #[flat(portable = true, tag_type = "u16")]
/// enum E { A, B(le::U16) }
/// ```
pub fn w10_portable_tag() {}
/// ```no_run
/// use flatty::{flat, portable::le};
/// #[flat(portable = true, tag_type = "u8")]
/// enum E { A, B(le::U16) }
/// ```
pub fn t10_portable_tag() {}

/// C17: containers are portable only with portable element and length types.
/// ```compile_fail,E0277
/// use flatty::{portable::le, FlatVec, Portable};
/// fn is_portable<T: Portable + ?Sized>() {}
/// is_portable::<FlatVec<u32, le::U16>>();
/// ```
pub fn w11_vec_native_elem() {}
/// ```compile_fail,E0277
/// use flatty::{portable::le, FlatVec, Portable};
/// fn is_portable<T: Portable + ?Sized>() {}
/// is_portable::<FlatVec<le::U32, u16>>();
/// ```
pub fn w12_vec_native_len() {}
/// ```compile_fail,E0277
/// use flatty::{FlatString, Portable};
/// fn is_portable<T: Portable + ?Sized>() {}
/// is_portable::<FlatString<u16>>();
/// ```
pub fn w13_string_native_len() {}
/// ```compile_fail,E0277
/// use flatty::{portable::le, FlexVec, Portable};
/// fn is_portable<T: Portable + ?Sized>() {}
/// is_portable::<FlexVec<le::U32, u16>>();
/// ```
pub fn w14_flex_native_len() {}
/// ```compile_fail,E0277
/// use flatty::{portable::le, FlexVec, FlatVec, Portable};
/// fn is_portable<T: Portable + ?Sized>() {}
/// is_portable::<FlexVec<FlatVec<u16, le::U16>, le::U16>>();
/// ```
pub fn w15_flex_native_item() {}
/// ```no_run
/// use flatty::{portable::{le, be}, FlatVec, FlatString, FlexVec, Portable};
/// fn is_portable<T: Portable + ?Sized>() {}
/// is_portable::<FlatVec<le::U32, le::U16>>();
/// is_portable::<FlatString<be::U16>>();
/// is_portable::<FlexVec<le::U32, le::U16>>();
/// is_portable::<FlexVec<FlatVec<le::U16, le::U16>, le::U16>>();
/// ```
pub fn t11_portable_containers() {}

/// C12: unchecked item views need `unsafe`.
/// ```compile_fail,E0133
/// let bytes = [0u8; 8];
/// let _ = flatty::utils::iter::UncheckedRefData::new(&bytes);
/// ```
pub fn w16_unchecked_ref_data() {}
/// ```no_run
/// let bytes = [0u8; 8];
/// let _ = unsafe { flatty::utils::iter::UncheckedRefData::new(&bytes) };
/// ```
pub fn t16_unchecked_ref_data() {}

/// C02: a FlatWrap over unvalidated bytes needs `unsafe`.
/// ```compile_fail,E0133
/// use flatty::{FlatWrap, FlatVec};
/// let bytes = vec![0u8; 8];
/// let _ = FlatWrap::<FlatVec<u8, u8>, _>::from_wrapped_bytes_unchecked(bytes);
/// ```
pub fn w17_wrap_unchecked() {}
/// ```no_run
/// use flatty::{FlatWrap, FlatVec};
/// let bytes = vec![0u8; 8];
/// let _ = FlatWrap::<FlatVec<u8, u8>, _>::from_wrapped_bytes(bytes);
/// ```
pub fn t17_wrap_unchecked() {}

/// C17: a portable C-like enum cannot have a native multi-byte tag either.
/// ```compile_fail,E0277
/// use flatty::flat;
/// #[flat(portable = true, tag_type = "u16")]
/// enum K { A, B, C }
/// ```
pub fn w18_portable_clike_tag() {}
/// ```no_run
/// use flatty::flat;
/// #[flat(portable = true, tag_type = "u8")]
/// enum K { A, B, C }
/// ```
pub fn t18_portable_clike_tag() {}

/// C04/C17: the representation of a `#[flat]` type is chosen by the macro; a user `#[repr(align(N))]` (or `packed`) would change the
/// layout behind the back of the generated `ALIGN` / `SIZE` / offsets (a "portable" type with alignment 4; an unsized type whose
/// `ALIGN` is 1 while `align_of_val` is 4, i.e. misaligned references out of `from_bytes`). It must not compile.
/// (The error comes from the macro, so it carries no error code; the compiling twin differs by the attribute only.)
/// ```compile_fail
/// use flatty::flat;
/// #[flat(portable = true)]
/// #[repr(align(4))]
/// struct Over { a: u8 }
/// ```
pub fn w19_user_repr_on_flat() {}
/// ```no_run
/// use flatty::flat;
/// #[flat(portable = true)]
/// struct Over { a: u8 }
/// ```
pub fn t19_user_repr_on_flat() {}

/// Same for an unsized type.
/// ```compile_fail
/// use flatty::{flat, FlatVec};
/// #[flat(sized = false)]
/// #[repr(align(4))]
/// struct OverUnsized { a: u8, b: FlatVec<u8, u8> }
/// ```
pub fn w20_user_repr_on_unsized_flat() {}
/// ```no_run
/// use flatty::{flat, FlatVec};
/// #[flat(sized = false)]
/// struct OverUnsized { a: u8, b: FlatVec<u8, u8> }
/// ```
pub fn t20_user_repr_on_unsized_flat() {}

/// C04 (configurations): `#[flat]` is an attribute macro and sees the item before `cfg` stripping; a field or variant disabled by
/// `#[cfg(..)]` would still be counted in every type list, offset and tag value the macro computes (validator at the wrong offsets,
/// a tag of no existing variant accepted). Conditional fields / variants must not compile. (Macro error: no error code.)
/// ```compile_fail
/// use flatty::flat;
/// #[flat]
/// struct SizedCfg { a: u8, #[cfg(any())] b: u64, c: u8 }
/// ```
pub fn w21_cfg_field_on_flat() {}
/// ```no_run
/// use flatty::flat;
/// #[flat]
/// struct SizedCfg { a: u8, b: u64, c: u8 }
/// ```
pub fn t21_cfg_field_on_flat() {}

/// Same for an enum variant.
/// ```compile_fail
/// use flatty::flat;
/// #[flat]
/// enum EnumCfg { A, #[cfg(any())] B(u8), C(u8) }
/// ```
pub fn w22_cfg_variant_on_flat() {}
/// ```no_run
/// use flatty::flat;
/// #[flat]
/// enum EnumCfg { A, B(u8), C(u8) }
/// ```
pub fn t22_cfg_variant_on_flat() {}

/// C17/C04: the same guard for enums. `align(N)` is the one representation hint rustc accepts next to the macro's own
/// `#[repr(C, u8)]` / `#[repr(u8)]`, so the macro itself has to refuse it (a "portable" enum of alignment 4 with padding bytes otherwise).
/// ```compile_fail
/// use flatty::{flat, portable::le};
/// #[flat(portable = true)]
/// #[repr(align(4))]
/// enum OverEnum { A, B(le::U16) }
/// ```
pub fn w23_user_repr_on_flat_enum() {}
/// ```no_run
/// use flatty::{flat, portable::le};
/// #[flat(portable = true)]
/// enum OverEnum { A, B(le::U16) }
/// ```
pub fn t23_user_repr_on_flat_enum() {}

/// Same for a field-less enum.
/// ```compile_fail
/// use flatty::flat;
/// #[flat(portable = true)]
/// #[repr(align(2))]
/// enum OverTag { A, B }
/// ```
pub fn w24_user_repr_on_clike_enum() {}
/// ```no_run
/// use flatty::flat;
/// #[flat(portable = true)]
/// enum OverTag { A, B }
/// ```
pub fn t24_user_repr_on_clike_enum() {}

/// C02 (FlatWrap): the wrapper validates - alignment included - the pointer it is given once and maps the bytes again, unchecked, at every
/// `Deref`. A pointer type that stores its bytes inline (stavec's array-backed `GenericVec<[MaybeUninit<u8>; N], L>`) moves them when the
/// wrapper is moved, so it must not be accepted as the pointer of a `FlatWrap` (finding 41: misaligned `&FlatVec<u32, u32>` from safe code).
/// ```compile_fail,E0277
/// use core::mem::MaybeUninit;
/// use flatty::{FlatVec, FlatWrap};
/// use stavec::GenericVec;
/// type Inline = GenericVec<[MaybeUninit<u8>; 12], u32>;
/// let bytes = Inline::default();
/// let _ = FlatWrap::<FlatVec<u32, u32>, Inline>::from_wrapped_bytes(bytes);
/// ```
pub fn w25_flatwrap_inline_storage() {}
/// ```no_run
/// use core::mem::MaybeUninit;
/// use flatty::{FlatVec, FlatWrap};
/// use stavec::GenericVec;
/// type Inline = GenericVec<[MaybeUninit<u8>; 12], u32>;
/// let mut bytes = Inline::default();
/// let _ = FlatWrap::<FlatVec<u32, u32>, &mut Inline>::from_wrapped_bytes(&mut bytes);
/// ```
pub fn t25_flatwrap_inline_storage() {}
